// C15 (server / request side): HTTP/1.1 request framing is exact, segmentation-independent and bounded.
//
// Level: exploration (bounded-exhaustive request streams x exhaustive segmentation, no sampling).
//
// SEAM (kept as narrow as works; compiled with -fno-access-control, nothing in /repo is modified):
//   * one real iora::network::HttpServer per worker process, constructed but never start()ed: no
//     sockets, no I/O thread.  Its real ThreadPool (2..8 workers) runs as in production.
//   * `_transport` is set to a real Transport built through the repo's own test seam
//     tests/network/transport_test_seam.hpp (TransportEngineInjector::withEngine) over a trivial
//     recording EngineBase: sendAsync() records the status line and completes synchronously with
//     success (as TcpEngine does), close() is counted.  So error responses and closes are observable.
//   * per run a fresh entry is inserted into `_sessionInfo` (what the onAccept callback does) and the
//     private HttpServer::handleIncomingData(sid, data, len) is called once per network read, from
//     this thread (the I/O-thread stand-in).  Requests reach the recording route handlers / default
//     handler through the real handleIncomingData -> ThreadPool -> processHttpRequest ->
//     HttpRequest::fromWireFormat -> classifyRequest -> handler path.
//   * after every feed the harness waits for quiescence of the pool (queue empty under the pool mutex
//     and `_busyThreads == 0`; a task is popped and counted busy under that same mutex, so this is
//     exact).  Handlers run on pool threads: recording is mutex-protected and the delivered messages
//     are compared as a multiset (matching in reference order), so the result does not depend on
//     which pool thread ran first.
//   * close: when handleIncomingData itself closes the session (cap / invalid Content-Length paths,
//     close() called on the feeding thread) no further bytes of the stream are fed -- the engine handles
//     the close before the next read.  A close requested from a pool thread (error-response path) does
//     not stop the feed: the engine processes close commands asynchronously, so the schedule in which
//     the bytes that already arrived are delivered first is a real one, and it is the one that keeps
//     one defect from masking the framing of everything behind it.
//
// ORACLE: oracle/c15_server_ref.hpp, a strict three-valued reference framer written from RFC 9112
// §2-§7 (not derived from iora).  For a stream it yields the certainly-valid messages M0..Mk-1 and a
// verdict on what follows (complete / incomplete / invalid-length / other).  Clauses:
//   delivered-equals-reference  handlers saw exactly (method, path+query, header map, payload bytes) of
//                               M0..Mk-1; verdict `other` => only "M0..Mk-1 were delivered" is demanded.
//                               Content-Length / Transfer-Encoding / Trailer are not compared (a decoder
//                               may legitimately rewrite them, RFC 9112 §7.3); trailers are not compared.
//   segmentation-independent    same, for a finding that does not occur on the unsplit feed of the stream
//   invalid-length-rejected     verdict invalid-length => nothing beyond M0..Mk-1 reaches a handler.
//                               CL together with TE: rejecting, or framing by TE alone, are both accepted
//                               (RFC 9112 §6.1).
//   terminates                  no feed loops.  Invalid-length family: every case runs in a forked child with
//                               its own server; hang = the child's feeding thread stays inside ONE
//                               handleIncomingData call while that thread's CPU time advances 1 s
//                               (load-independent), so the sig names the feature (`hang:<verdict>`).  Elsewhere: vr::run_sharded's stall
//                               detection (`terminates/hang`), with a heartbeat per feed in the cap family.
//   no-exception-escapes        nothing is thrown out of handleIncomingData
//   buffer-within-cap           SessionInfo::buffer never exceeds SessionInfo::MAX_BUFFER_SIZE
//
// SIGNATURES are derived from the failing case by the reference, never from the generator's intent:
// the kind of difference (body:chunked-not-decoded | body:truncated | body:overrun | headers:<name> |
// target:query | message-lost:after=<framing of the predecessor> | message-invented:<verdict>) plus the
// framing of the affected message; for a finding absent from the unsplit feed additionally the region of
// the stream the cut falls in (cut@header-terminator, cut@chunk-size-line|chunk-data, byte-at-a-time ...;
// a failing pair of cuts is attributed to the single cut that already fails, if one does).  Only the
// first lost message of a run is reported (later losses are consequences).
//
// FAMILIES (--families, default all; registry: part C15_server = ABC plain build, part
// C15_server_hostile = DFE ASan+UBSan build):
//   D invalid length information (33 streams, isolated children)     F never-terminated streams vs the cap
//   A framing-exhaustive    B header-exhaustive    C pipelines of 2 and 3    E single-byte substitutions
// Every stream: unsplit, every single cut, byte-at-a-time; every pair of cuts where the tier says so.
//
// The caps are compile-time constants of HttpServer::SessionInfo (not configurable), so the
// never-terminated families run against the real 1 MiB buffer cap, in pieces of 64 KiB .. 509 B.
//
// Hypotheses (DESIGN.md C15) -- all four confirmed on the unchanged tree, see known_findings.jsonl:
//   H-C15-1 chunk-size FFFFFFFFFFFFFFEC wraps `pos += chunkSize + 2` -> handleIncomingData never returns
//   H-C15-2 chunked bodies reach handlers still chunk-encoded
//   H-C15-3 stoull/stoul accept 5abc, +5, "5 ,6", -0, 0x5; the last of two different Content-Length wins
//   H-C15-4 a trailer section cuts the request short; the leftover turns the next request into a 400
#include "iora/network/http_server.hpp"
#include "network/transport_test_seam.hpp"

#include "bexh.hpp"
#include "../oracle/c15_server_ref.hpp"

#include <cxxabi.h>
#include <dirent.h>
#include <fcntl.h>
#include <sched.h>
#include <sys/resource.h>
#include <unordered_set>

namespace
{
using iora::network::HttpServer;
using iora::network::SessionId;
namespace net = iora::network;

// ───────────────────────────── recording engine ─────────────────────────────
struct RecEngine : net::detail::EngineBase
{
  std::mutex m;
  std::vector<int> statuses;
  int closes = 0;
  int closesOnFeeder = 0; // close() called synchronously from inside handleIncomingData
  std::thread::id feeder = std::this_thread::get_id();
  void reset()
  {
    std::lock_guard<std::mutex> l(m);
    statuses.clear();
    closes = 0;
    closesOnFeeder = 0;
  }
  net::StartResult start() override { return net::StartResult::ok(); }
  void stop() override {}
  bool isRunning() const override { return false; }
  net::TransportErrorInfo lastError() const override { return {}; }
  net::ListenResult addListener(const std::string &, std::uint16_t, net::TlsMode) override { return net::ListenResult::ok(1); }
  net::ConnectResult connect(const std::string &, std::uint16_t, net::TlsMode) override
  {
    return net::ConnectResult::err(net::TransportErrorInfo{});
  }
  net::ConnectResult connectViaListener(net::ListenerId, const std::string &, std::uint16_t) override
  {
    return net::ConnectResult::err(net::TransportErrorInfo{});
  }
  bool close(SessionId) override
  {
    std::lock_guard<std::mutex> l(m);
    ++closes;
    if (std::this_thread::get_id() == feeder)
      ++closesOnFeeder;
    return true;
  }
  void note(const void *d, std::size_t n)
  {
    std::string s((const char *)d, n < 16 ? n : 16);
    int st = -1;
    if (s.size() >= 12 && s.compare(0, 5, "HTTP/") == 0)
      st = atoi(s.c_str() + 9);
    std::lock_guard<std::mutex> l(m);
    statuses.push_back(st);
  }
  bool send(SessionId, const void *d, std::size_t n) override
  {
    note(d, n);
    return true;
  }
  void sendAsync(SessionId sid, const void *d, std::size_t n, net::SendCompleteCallback cb) override
  {
    note(d, n);
    if (cb)
      cb(sid, net::SendResult::ok(n));
  }
  void setCallbacks(Callbacks) override {}
  net::TransportStats getStats() const override { return {}; }
  net::TransportAddress getListenerAddress(net::ListenerId) const override { return {}; }
  net::TransportAddress getLocalAddress(SessionId) const override { return {}; }
  net::TransportAddress getRemoteAddress(SessionId) const override { return {}; }
  bool setDscp(SessionId, std::uint8_t) override { return true; }
  std::thread::id getIoThreadId() const override { return {}; }
  void detachForTermination() override {}
  void scheduleSelfDestruct(std::function<void()>) override {}
};

// ───────────────────────────── delivered message, canonical ─────────────────────────────
using KV = std::pair<std::string, std::string>;
struct DMsg
{
  std::string method, path;
  std::vector<KV> params, headers; // sorted; header names lower-cased
  std::string body;
  std::string key() const
  {
    std::string k = method + " " + path + "?";
    for (auto &p : params)
      k += p.first + "=" + p.second + "&";
    k += "\n";
    for (auto &h : headers)
      k += h.first + ":" + h.second + "\n";
    k += "\n" + body;
    return k;
  }
  std::string show() const
  {
    std::string k = method + " " + path;
    char sep = '?';
    for (auto &p : params)
    {
      k += sep + p.first + "=" + p.second;
      sep = '&';
    }
    k += " {";
    for (auto &h : headers)
      k += h.first + ":[" + h.second + "] ";
    k += "} body[" + std::to_string(body.size()) + "]=" + body;
    return k;
  }
};
bool notCompared(const std::string &lname) { return lname == "content-length" || lname == "transfer-encoding" || lname == "trailer"; }

DMsg fromRef(const c15ref::Msg &m)
{
  DMsg d;
  d.method = m.method;
  size_t q = m.target.find('?');
  d.path = m.target.substr(0, q);
  if (q != std::string::npos)
  {
    std::string query = m.target.substr(q + 1);
    size_t p = 0;
    while (true)
    {
      size_t amp = query.find('&', p);
      std::string pr = query.substr(p, amp == std::string::npos ? std::string::npos : amp - p);
      size_t eq = pr.find('=');
      if (eq != std::string::npos)
        d.params.emplace_back(pr.substr(0, eq), pr.substr(eq + 1));
      if (amp == std::string::npos)
        break;
      p = amp + 1;
    }
  }
  std::sort(d.params.begin(), d.params.end());
  for (auto &f : m.fields)
  {
    std::string ln = c15ref::detail::lowered(f.name);
    if (notCompared(ln))
      continue;
    bool found = false;
    for (auto &h : d.headers)
      if (h.first == ln)
      {
        // repeated field lines of a list field combine in order (RFC 9110 §5.3); the reference only
        // lets Via repeat
        if (!f.value.empty())
          h.second = h.second.empty() ? f.value : h.second + ", " + f.value;
        found = true;
      }
    if (!found)
      d.headers.emplace_back(ln, f.value);
  }
  std::sort(d.headers.begin(), d.headers.end());
  d.body = m.body;
  return d;
}

DMsg fromRequest(const HttpServer::Request &rq)
{
  DMsg d;
  d.method = net::toString(rq.method);
  d.path = rq.path;
  for (auto &p : rq.params)
    d.params.emplace_back(p.first, p.second);
  std::sort(d.params.begin(), d.params.end());
  for (auto &h : rq.headers)
  {
    std::string ln = c15ref::detail::lowered(h.first);
    if (notCompared(ln))
      continue;
    d.headers.emplace_back(ln, h.second);
  }
  std::sort(d.headers.begin(), d.headers.end());
  d.body = rq.body;
  return d;
}

// ───────────────────────────── segmentation ─────────────────────────────
struct Seg
{
  enum Kind
  {
    Unsplit,
    Cuts,
    Bytes,
    Pieces // fixed piece size (cap family)
  } kind = Unsplit;
  size_t c1 = 0, c2 = 0; // Cuts: c2==0 => single cut
  std::string str() const
  {
    if (kind == Unsplit)
      return "-";
    if (kind == Bytes)
      return "*";
    if (kind == Pieces)
      return "p" + std::to_string(c1);
    return c2 ? std::to_string(c1) + "," + std::to_string(c2) : std::to_string(c1);
  }
  static Seg parse(const std::string &s)
  {
    Seg g;
    if (s == "-" || s.empty())
      return g;
    if (s == "*")
    {
      g.kind = Bytes;
      return g;
    }
    if (s[0] == 'p')
    {
      g.kind = Pieces;
      g.c1 = strtoull(s.c_str() + 1, nullptr, 10);
      return g;
    }
    g.kind = Cuts;
    g.c1 = strtoull(s.c_str(), nullptr, 10);
    size_t c = s.find(',');
    if (c != std::string::npos)
      g.c2 = strtoull(s.c_str() + c + 1, nullptr, 10);
    return g;
  }
  static Seg cut(size_t a, size_t b = 0)
  {
    Seg g;
    g.kind = Cuts;
    g.c1 = a;
    g.c2 = b;
    return g;
  }
  static Seg bytes()
  {
    Seg g;
    g.kind = Bytes;
    return g;
  }
  static Seg pieces(size_t n)
  {
    Seg g;
    g.kind = Pieces;
    g.c1 = n;
    return g;
  }
};

struct RunOut
{
  std::vector<DMsg> got; // sorted by key()
  int closes = 0;
  std::vector<int> statuses;
  size_t maxBuf = 0;
  std::string exc;
  uint64_t feeds = 0;
  bool stoppedAfterClose = false;
  size_t fedBytes = 0;
};

// ───────────────────────────── the server under test ─────────────────────────────
struct Env
{
  HttpServer srv;
  RecEngine *eng = nullptr;
  std::mutex m;
  std::vector<DMsg> recs;
  SessionId sid = 1000;
  static constexpr size_t CAP = HttpServer::SessionInfo::MAX_BUFFER_SIZE;
  // shared with a supervising parent when this Env lives in an isolated child: [0] ticks on entry to
  // and exit from every handleIncomingData call, [1] == 1 while inside one
  volatile uint64_t *progress = nullptr;
  // called after every feed of a long (cap family) run so that the supervisor's stall detection
  // applies per feed, not per case
  std::function<void()> heartbeat;

  Env()
  {
    auto e = std::make_unique<RecEngine>();
    eng = e.get();
    srv._transport = net::test::TransportEngineInjector::withEngine(std::move(e), net::TransportConfig{});
    auto h = [this](const HttpServer::Request &rq, HttpServer::Response &rs)
    {
      DMsg d = fromRequest(rq);
      {
        std::lock_guard<std::mutex> l(m);
        recs.push_back(std::move(d));
      }
      rs.set_content("ok", "text/plain");
    };
    // "/" and "/a/b" go through matched routes (HEAD through the GET route), everything else through
    // the default handler.
    srv.onGet("/", h);
    srv.onPost("/", h);
    srv.onGet("/a/b", h);
    srv.onPost("/a/b", h);
    srv.setDefaultHandler(h);
  }

  void quiesce()
  {
    for (unsigned spins = 0;; ++spins)
    {
      if (srv._threadPool.getPendingTaskCount() == 0 && srv._threadPool._busyThreads.load() == 0)
        return;
      if (spins < 200)
        sched_yield();
      else
        usleep(50); // do not burn the core the pool thread may need
    }
  }

  // Feed `s` cut as `seg` says.  `limit`: stop feeding after this many bytes (cap family) .
  RunOut run(const std::string &s, const Seg &seg)
  {
    RunOut out;
    ++sid;
    {
      std::lock_guard<std::mutex> l(srv._sessionMutex);
      HttpServer::SessionInfo info;
      info.peerAddress = "192.0.2.1";
      info.peerPort = 4242;
      srv._sessionInfo[sid] = info;
    }
    {
      std::lock_guard<std::mutex> l(m);
      recs.clear();
    }
    eng->reset();
    auto feed = [&](size_t off, size_t len) -> bool
    {
      ++out.feeds;
      try
      {
        if (progress)
        {
          progress[1] = 1;
          progress[0] = progress[0] + 1;
        }
        srv.handleIncomingData(sid, reinterpret_cast<const std::uint8_t *>(s.data()) + off, len);
        if (progress)
        {
          progress[1] = 0;
          progress[0] = progress[0] + 1;
        }
      }
      catch (const std::exception &e)
      {
        int st = 0;
        char *dn = abi::__cxa_demangle(typeid(e).name(), nullptr, nullptr, &st);
        out.exc = std::string(dn ? dn : typeid(e).name()) + ": " + e.what();
        free(dn);
        return false;
      }
      catch (...)
      {
        out.exc = "non-std exception";
        return false;
      }
      quiesce();
      if (heartbeat)
        heartbeat();
      {
        std::lock_guard<std::mutex> l(srv._sessionMutex);
        auto it = srv._sessionInfo.find(sid);
        if (it != srv._sessionInfo.end() && it->second.buffer.size() > out.maxBuf)
          out.maxBuf = it->second.buffer.size();
      }
      bool closed;
      {
        std::lock_guard<std::mutex> l(eng->m);
        closed = eng->closesOnFeeder > 0;
      }
      return !closed;
    };
    size_t L = s.size();
    bool go = true;
    size_t fed = 0;
    switch (seg.kind)
    {
    case Seg::Unsplit:
      go = feed(0, L);
      fed = L;
      break;
    case Seg::Cuts:
    {
      size_t cuts[3] = {seg.c1, seg.c2 ? seg.c2 : L, L};
      size_t prev = 0;
      for (int i = 0; i < 3 && go; ++i)
      {
        if (cuts[i] <= prev || cuts[i] > L)
          continue;
        go = feed(prev, cuts[i] - prev);
        prev = cuts[i];
        fed = prev;
      }
      break;
    }
    case Seg::Bytes:
      for (size_t i = 0; i < L && go; ++i)
      {
        go = feed(i, 1);
        fed = i + 1;
      }
      break;
    case Seg::Pieces:
      for (size_t i = 0; i < L && go; i += seg.c1)
      {
        size_t n = std::min(seg.c1, L - i);
        go = feed(i, n);
        fed = i + n;
      }
      break;
    }
    out.stoppedAfterClose = fed < L;
    out.fedBytes = fed;
    quiesce();
    {
      std::lock_guard<std::mutex> l(srv._sessionMutex);
      srv._sessionInfo.erase(sid);
      srv._upgradedSessions.erase(sid);
    }
    {
      std::lock_guard<std::mutex> l(m);
      out.got.swap(recs);
    }
    std::sort(out.got.begin(), out.got.end(), [](const DMsg &a, const DMsg &b) { return a.key() < b.key(); });
    {
      std::lock_guard<std::mutex> l(eng->m);
      out.closes = eng->closes;
      out.statuses = eng->statuses;
    }
    std::sort(out.statuses.begin(), out.statuses.end());
    return out;
  }
};

// ───────────────────────────── judging a run against the reference ─────────────────────────────
struct Finding
{
  std::string clause, sig, detail;
};

bool properPrefix(const std::string &a, const std::string &b) { return a.size() < b.size() && b.compare(0, a.size(), a) == 0; }

std::string bodyDiffClass(const c15ref::Msg &e, const std::string &stream, const std::string &got)
{
  bool chunked = e.framing.compare(0, 7, "chunked") == 0;
  std::string wire = stream.substr(e.bodyBegin, e.end - e.bodyBegin);
  if (chunked && got == wire)
    return "body:chunked-not-decoded";
  std::string c;
  if (chunked && !got.empty() && properPrefix(got, wire))
    c = "body:chunked-not-decoded:wire-truncated";
  else if (chunked && properPrefix(wire, got))
    c = "body:chunked-not-decoded:wire-overrun";
  else if (properPrefix(got, e.body))
    c = "body:truncated";
  else if (properPrefix(e.body, got))
    c = "body:overrun";
  else
    c = "body:differs";
  return c + ":" + e.framing;
}

std::vector<Finding> judge(const std::string &stream, const c15ref::Parse &ref, const RunOut &out)
{
  std::vector<Finding> fs;
  if (!out.exc.empty())
  {
    std::string t = out.exc.substr(0, out.exc.find(':'));
    fs.push_back({"no-exception-escapes", "throws:" + t, "exception escaped HttpServer::handleIncomingData: " + out.exc});
  }
  if (out.maxBuf > Env::CAP)
    fs.push_back({"buffer-within-cap", "session-buffer>MAX_BUFFER_SIZE",
                  "SessionInfo::buffer reached " + std::to_string(out.maxBuf) + " bytes, cap " + std::to_string(Env::CAP)});
  std::vector<DMsg> exp;
  for (auto &m : ref.msgs)
    exp.push_back(fromRef(m));
  // Content-Length together with Transfer-Encoding: the server may also reject at that message.
  size_t q = exp.size();
  for (size_t i = 0; i < ref.msgs.size(); ++i)
    if (ref.msgs[i].clAndTe)
    {
      q = i;
      break;
    }
  if (q < exp.size() && out.got.size() == q)
  {
    std::vector<std::string> a, b;
    for (size_t i = 0; i < q; ++i)
      a.push_back(exp[i].key());
    for (auto &g : out.got)
      b.push_back(g.key());
    std::sort(a.begin(), a.end());
    if (a == b)
      return fs; // rejected at the CL+TE message: allowed
  }
  std::vector<bool> used(out.got.size(), false);
  std::vector<size_t> ue;
  for (size_t i = 0; i < exp.size(); ++i)
  {
    std::string k = exp[i].key();
    bool f = false;
    for (size_t j = 0; j < out.got.size(); ++j)
      if (!used[j] && out.got[j].key() == k)
      {
        used[j] = true;
        f = true;
        break;
      }
    if (!f)
      ue.push_back(i);
  }
  bool lostReported = false;
  for (size_t i : ue)
  {
    const DMsg &e = exp[i];
    // partner: the unused delivered message with the same method and path that is most similar
    // (same header map > same query > same body); pipelined requests carry a distinct X-Seq marker
    size_t cand = out.got.size();
    int best = -1;
    for (size_t j = 0; j < out.got.size(); ++j)
      if (!used[j] && out.got[j].method == e.method && out.got[j].path == e.path)
      {
        int score = (out.got[j].headers == e.headers ? 4 : 0) + (out.got[j].params == e.params ? 2 : 0) + (out.got[j].body == e.body ? 1 : 0);
        if (score < 3)
          continue; // neither the same header map nor the same query+body: not the same message
        if (score > best)
        {
          best = score;
          cand = j;
        }
      }
    std::string where = "message #" + std::to_string(i) + " of " + std::to_string(exp.size()) + " (" + ref.msgs[i].framing + ")";
    if (cand == out.got.size())
    {
      // only the first lost message of a run is reported: later ones are consequences (the connection
      // was closed, or the stream position is already wrong)
      if (lostReported)
        continue;
      lostReported = true;
      std::string sig = i == 0 ? "message-lost:first:" + ref.msgs[i].framing : "message-lost:after=" + ref.msgs[i - 1].framing;
      // the server closed the connection before this message had been read completely: the loss is a
      // consequence of whatever made it close (named by the preceding message), not of the cut position
      if (out.stoppedAfterClose && ref.msgs[i].end > out.fedBytes)
        sig = "message-lost:closed-before-read:" + sig.substr(13);
      std::string st;
      for (int s : out.statuses)
        st += std::to_string(s) + " ";
      fs.push_back({"delivered-equals-reference", sig,
                    where + " never reached a handler; expected " + e.show() + " ; responses sent: " + st + "closes=" + std::to_string(out.closes)});
      continue;
    }
    used[cand] = true;
    const DMsg &g = out.got[cand];
    if (g.body != e.body)
      fs.push_back({"delivered-equals-reference", bodyDiffClass(ref.msgs[i], stream, g.body),
                    where + ": expected body[" + std::to_string(e.body.size()) + "]=" + e.body + " got body[" + std::to_string(g.body.size()) +
                      "]=" + g.body});
    if (g.headers != e.headers)
    {
      std::string name = "?";
      size_t a = 0, b = 0;
      while (a < e.headers.size() || b < g.headers.size())
      {
        if (a < e.headers.size() && b < g.headers.size() && e.headers[a] == g.headers[b])
        {
          ++a;
          ++b;
          continue;
        }
        if (b >= g.headers.size() || (a < e.headers.size() && e.headers[a].first <= g.headers[b].first))
          name = e.headers[a].first;
        else
          name = "+" + g.headers[b].first;
        break;
      }
      fs.push_back({"delivered-equals-reference", "headers:" + name, where + ": expected " + e.show() + " got " + g.show()});
    }
    if (g.params != e.params)
      fs.push_back({"delivered-equals-reference", "target:query", where + ": expected " + e.show() + " got " + g.show()});
  }
  if (ref.tail != c15ref::Tail::Other)
  {
    for (size_t j = 0; j < out.got.size(); ++j)
      if (!used[j])
      {
        if (ref.tail == c15ref::Tail::InvalidLength)
          fs.push_back({"invalid-length-rejected", ref.feature,
                        "a message with invalid length information (" + ref.feature + ", at offset " + std::to_string(ref.tailAt) +
                          ") was framed and handed to a handler: " + out.got[j].show()});
        else
          fs.push_back({"delivered-equals-reference",
                        std::string("message-invented:") + (ref.tail == c15ref::Tail::Complete ? "complete-stream" : ref.feature),
                        "the reference frames " + std::to_string(exp.size()) + " message(s) then '" + c15ref::tailName(ref.tail) + "' (" +
                          ref.feature + "); a handler also received: " + out.got[j].show()});
      }
  }
  return fs;
}

bool sameFinding(const Finding &a, const Finding &b) { return a.clause == b.clause && a.sig == b.sig; }
bool hasFinding(const std::vector<Finding> &v, const Finding &f)
{
  for (auto &x : v)
    if (sameFinding(x, f))
      return true;
  return false;
}

// ───────────────────────────── case text (replayable) ─────────────────────────────
std::string caseText(const std::string &fam, const Seg &seg, const std::string &stream)
{
  return "C15S1 fam=" + fam + " seg=" + seg.str() + "\n" + stream;
}
bool parseCase(const std::string &c, std::string &fam, Seg &seg, std::string &stream)
{
  size_t nl = c.find('\n');
  if (nl == std::string::npos || c.compare(0, 6, "C15S1 ") != 0)
    return false;
  std::string h = c.substr(0, nl);
  size_t f = h.find("fam="), s = h.find(" seg=");
  if (f == std::string::npos || s == std::string::npos)
    return false;
  fam = h.substr(f + 4, s - f - 4);
  seg = Seg::parse(h.substr(s + 5));
  stream = c.substr(nl + 1);
  return true;
}

// ───────────────────────────── evaluation (local or in a forked child) ─────────────────────────────
struct Stats
{
  uint64_t feeds = 0, delivered = 0, closes = 0, resp2xx = 0, resp4xx = 0, resp5xx = 0, stoppedAfterClose = 0;
  size_t maxBuf = 0;
  void add(const RunOut &o)
  {
    feeds += o.feeds;
    delivered += o.got.size();
    closes += o.closes;
    for (int s : o.statuses)
      (s >= 500 ? resp5xx : s >= 400 ? resp4xx : resp2xx)++;
    stoppedAfterClose += o.stoppedAfterClose;
    if (o.maxBuf > maxBuf)
      maxBuf = o.maxBuf;
  }
};
struct CaseResult
{
  int forkedFromThreads = 0; // isolated runs: threads of the forking process (must be 1)
  bool hang = false, crash = false;
  std::string crashInfo;
  std::vector<Finding> findings;
  Stats st;
};

CaseResult evalLocal(Env &env, const std::string &stream, const c15ref::Parse &ref, const Seg &seg)
{
  CaseResult r;
  RunOut o = env.run(stream, seg);
  r.st.add(o);
  r.findings = judge(stream, ref, o);
  return r;
}

void putStr(std::string &b, const std::string &s)
{
  uint32_t n = (uint32_t)s.size();
  b.append((const char *)&n, 4);
  b += s;
}
bool getStr(const std::string &b, size_t &p, std::string &s)
{
  if (p + 4 > b.size())
    return false;
  uint32_t n;
  memcpy(&n, b.data() + p, 4);
  p += 4;
  if (p + n > b.size())
    return false;
  s.assign(b, p, n);
  p += n;
  return true;
}

int countThreads()
{
  int n = 0;
  if (DIR *d = opendir("/proc/self/task"))
  {
    while (struct dirent *e = readdir(d))
      if (e->d_name[0] != '.')
        ++n;
    closedir(d);
  }
  return n;
}

// CPU time consumed so far by the MAIN thread of process `pid` (the thread that calls
// handleIncomingData in an isolated child): /proc/<pid>/schedstat is per task and, for the process
// directory, describes the thread whose tid == pid.  First field: time spent on a CPU, in ns.
// Falls back to the process-wide CPU clock.
double feederCpuSeconds(pid_t pid)
{
  char path[64];
  snprintf(path, sizeof path, "/proc/%d/schedstat", (int)pid);
  FILE *f = fopen(path, "r");
  if (f)
  {
    unsigned long long ns = 0;
    int n = fscanf(f, "%llu", &ns);
    fclose(f);
    if (n == 1)
      return ns * 1e-9;
  }
  clockid_t cid;
  if (clock_getcpuclockid(pid, &cid) != 0)
    return 0;
  struct timespec ts;
  if (clock_gettime(cid, &ts) != 0)
    return 0;
  return ts.tv_sec + ts.tv_nsec * 1e-9;
}

// Runs one (stream, segmentation) in a forked child with its own fresh server.  Hang verdict: the
// child's feeding thread stays inside ONE handleIncomingData call (progress word unchanged, in-feed flag
// set) while that thread's own CPU time advances by `cpuLimit` seconds.  A normal call needs
// microseconds of CPU; thread CPU time, unlike wall time or process CPU time, grows neither when the
// machine is loaded nor when other threads of the child are busy, so the verdict cannot be produced by
// starvation.  Anything else that stops the child from finishing (a looping pool thread, a deadlock)
// is left to vr::run_sharded's stall detection of the waiting worker.
CaseResult evalIsolated(const std::string &stream, const c15ref::Parse &ref, const Seg &seg, double cpuLimit = 1.0)
{
  CaseResult r;
  int fd[2];
  volatile uint64_t *prog =
    (volatile uint64_t *)mmap(nullptr, 4096, PROT_READ | PROT_WRITE, MAP_SHARED | MAP_ANONYMOUS, -1, 0);
  if (pipe(fd) != 0 || prog == MAP_FAILED)
  {
    r.crash = true;
    r.crashInfo = "pipe()/mmap() failed";
    return r;
  }
  prog[0] = 0;
  prog[1] = 0;
  fflush(nullptr);
  r.forkedFromThreads = countThreads();
  pid_t p = fork();
  if (p == 0)
  {
    prctl(PR_SET_PDEATHSIG, SIGKILL);
    close(fd[0]);
    Env *env = new Env(); // never destroyed: the child _exit()s
    env->progress = prog;
    CaseResult c = evalLocal(*env, stream, ref, seg);
    std::string b;
    uint32_t n = (uint32_t)c.findings.size();
    b.append((const char *)&n, 4);
    for (auto &f : c.findings)
    {
      putStr(b, f.clause);
      putStr(b, f.sig);
      putStr(b, f.detail);
    }
    b.append((const char *)&c.st, sizeof c.st);
    size_t w = 0;
    while (w < b.size())
    {
      ssize_t k = write(fd[1], b.data() + w, b.size() - w);
      if (k <= 0)
        break;
      w += (size_t)k;
    }
    _exit(0);
  }
  close(fd[1]);
  int st = 0;
  std::string buf;
  fcntl(fd[0], F_SETFL, fcntl(fd[0], F_GETFL) | O_NONBLOCK);
  uint64_t lastTick = ~uint64_t(0);
  double cpuAtTick = 0;
  while (true)
  {
    char tmp[65536];
    ssize_t k;
    while ((k = read(fd[0], tmp, sizeof tmp)) > 0)
      buf.append(tmp, (size_t)k);
    pid_t w = waitpid(p, &st, WNOHANG);
    if (w == p)
    {
      while ((k = read(fd[0], tmp, sizeof tmp)) > 0)
        buf.append(tmp, (size_t)k);
      break;
    }
    // order matters: the CPU reading is taken BEFORE the progress word, so a tick seen unchanged
    // twice brackets the whole CPU interval
    double cpu = feederCpuSeconds(p);
    uint64_t tick = prog[0];
    bool inFeed = prog[1] == 1;
    if (tick != lastTick || !inFeed)
    {
      lastTick = tick;
      cpuAtTick = cpu;
    }
    else if (cpu - cpuAtTick > cpuLimit)
    {
      kill(p, SIGKILL);
      waitpid(p, &st, 0);
      r.hang = true;
      break;
    }
    usleep(1000);
  }
  munmap((void *)prog, 4096);
  close(fd[0]);
  if (r.hang)
    return r;
  if (!(WIFEXITED(st) && WEXITSTATUS(st) == 0))
  {
    r.crash = true;
    r.crashInfo = WIFSIGNALED(st) ? "child died with signal " + std::to_string(WTERMSIG(st)) : "child exited with status " + std::to_string(WEXITSTATUS(st));
    return r;
  }
  size_t pos = 0;
  uint32_t n = 0;
  bool ok = buf.size() >= 4;
  if (ok)
  {
    memcpy(&n, buf.data(), 4);
    pos = 4;
    for (uint32_t i = 0; i < n && ok; ++i)
    {
      Finding f;
      ok = getStr(buf, pos, f.clause) && getStr(buf, pos, f.sig) && getStr(buf, pos, f.detail);
      if (ok)
        r.findings.push_back(f);
    }
    if (ok && pos + sizeof r.st <= buf.size())
      memcpy(&r.st, buf.data() + pos, sizeof r.st);
    else
      ok = false;
  }
  if (!ok)
  {
    r.crash = true;
    r.crashInfo = "child result unreadable";
  }
  return r;
}

// ───────────────────────────── generator ─────────────────────────────
struct Framing
{
  enum Kind
  {
    None,
    CL,
    Chunked
  } kind = None;
  int clFmt = 0;          // 0: "N"   1: "00N"
  std::vector<int> parts; // chunk sizes
  int sizeFmt = 0;        // 0: lower hex   1: upper hex with a leading zero
  int ext = 0;            // 0 none  1 ";a=b" on every chunk-size line  2 ";q=\"x y\";n" on the first line
  int trailers = 0;       // 0,1,2 trailer fields
};

std::string hexSize(size_t n, int fmt)
{
  char b[32];
  snprintf(b, sizeof b, fmt ? "0%zX" : "%zx", n);
  return b;
}

const char *kMethods[] = {"GET", "POST", "HEAD"};
const char *kTargets[] = {"/", "/a/b?x=1&y=2", "/zz/r%20x"};
const int kHeaderSets = 7;

// Header set `hs` around the framing line(s).  Returns the lines in wire order.
std::vector<std::string> headerLines(int hs, const Framing &f, size_t bodyLen)
{
  std::string clv = (f.clFmt ? "00" : "") + std::to_string(bodyLen);
  std::string cl, te;
  switch (hs)
  {
  case 1:
    cl = "CONTENT-LENGTH: " + clv;
    te = "transfer-encoding: CHUNKED";
    break;
  case 2:
    cl = "Content-Length:" + clv;
    te = "Transfer-Encoding:chunked";
    break;
  case 3:
    cl = "content-length: \t" + clv + " \t";
    te = "Transfer-encoding:  Chunked  ";
    break;
  default:
    cl = "Content-Length: " + clv;
    te = "Transfer-Encoding: chunked";
  }
  std::vector<std::string> fr;
  if (f.kind == Framing::CL)
    fr.push_back(cl);
  else if (f.kind == Framing::Chunked)
  {
    fr.push_back(te);
    if (f.trailers && (hs == 4 || hs == 6))
      fr.push_back("Trailer: X-T");
  }
  std::vector<std::string> l;
  auto addFr = [&]() { l.insert(l.end(), fr.begin(), fr.end()); };
  switch (hs)
  {
  case 0:
    l = {"Host: h"};
    addFr();
    break;
  case 1:
    l = {"hOsT: h"};
    addFr();
    break;
  case 2:
    l = {"Host:h", "X-A:\tv\t", "X-E:"};
    addFr();
    break;
  case 3:
    l = {"Host:   h  ", "Accept: a, b,c", "Via: 1.1 a"};
    addFr();
    l.push_back("via: 1.1 b");
    break;
  case 4: // framing last, decoys before it
    l = {"X-First: 1", "Host: h", "X-T: a:b; c=d", "X-Content-Length: 9", "X-Note: Transfer-Encoding: chunked"};
    addFr();
    break;
  case 5: // framing first
    addFr();
    l.push_back("Host: h");
    l.push_back("User-Agent: u/1.0 (x; y)");
    break;
  default: // 6: every tchar in a name, inner HTAB in a value
    l = {"Host: h", "X!#$%&'*+-.^_`|~9: v\tw"};
    addFr();
    l.push_back("Accept-Encoding: gzip;q=1.0, identity; q=0.5, *;q=0");
    break;
  }
  return l;
}

std::string buildRequest(const std::string &method, const std::string &target, int hs, const std::string &body, const Framing &f,
                         const std::string &firstHeader = "")
{
  std::string s = method + " " + target + " HTTP/1.1\r\n";
  if (!firstHeader.empty())
    s += firstHeader + "\r\n";
  for (auto &l : headerLines(hs, f, body.size()))
    s += l + "\r\n";
  s += "\r\n";
  if (f.kind == Framing::CL)
    s += body;
  else if (f.kind == Framing::Chunked)
  {
    size_t off = 0;
    bool first = true;
    auto ext = [&](bool firstLine) -> std::string
    {
      if (f.ext == 1)
        return ";a=b";
      if (f.ext == 2 && firstLine)
        return ";q=\"x y\";n";
      return "";
    };
    for (int p : f.parts)
    {
      s += hexSize((size_t)p, f.sizeFmt) + ext(first) + "\r\n";
      s.append(body, off, (size_t)p);
      s += "\r\n";
      off += (size_t)p;
      first = false;
    }
    s += hexSize(0, f.sizeFmt) + ext(first) + "\r\n";
    if (f.trailers >= 1)
      s += "X-T: 1\r\n";
    if (f.trailers >= 2)
      s += "Y-U:z\r\n";
    s += "\r\n";
  }
  return s;
}

// compositions of n into 1..maxParts positive parts (n == 0: the empty composition)
void compositions(int n, int maxParts, std::vector<std::vector<int>> &out)
{
  if (n == 0)
  {
    out.push_back({});
    return;
  }
  std::vector<int> cur;
  std::function<void(int)> rec = [&](int left)
  {
    if (left == 0)
    {
      out.push_back(cur);
      return;
    }
    if ((int)cur.size() == maxParts)
      return;
    for (int k = 1; k <= left; ++k)
    {
      if ((int)cur.size() == maxParts - 1 && k != left)
        continue;
      cur.push_back(k);
      rec(left - k);
      cur.pop_back();
    }
  };
  rec(n);
}

const std::string kBodies[] = {"", "x", "hello", std::string("\r\n0\r\n"), "hello world"};

std::vector<Framing> allFramings(const std::string &body, bool reduced)
{
  std::vector<Framing> v;
  if (body.empty())
    v.push_back(Framing{});
  for (int cf = 0; cf < 2; ++cf)
  {
    Framing f;
    f.kind = Framing::CL;
    f.clFmt = cf;
    v.push_back(f);
  }
  std::vector<std::vector<int>> parts;
  if (body.size() > 5)
    parts = {{(int)body.size()}, {(int)body.size() - 1, 1}, {1, (int)body.size() - 1}};
  else
    compositions((int)body.size(), 3, parts);
  for (auto &p : parts)
    for (int sf = 0; sf < (reduced ? 1 : 2); ++sf)
      for (int ex = 0; ex < 3; ++ex)
        for (int tr = 0; tr < 3; ++tr)
        {
          Framing f;
          f.kind = Framing::Chunked;
          f.parts = p;
          f.sizeFmt = sf;
          f.ext = ex;
          f.trailers = tr;
          v.push_back(f);
        }
  return v;
}

Framing chunked(std::vector<int> parts, int ext = 0, int trailers = 0)
{
  Framing f;
  f.kind = Framing::Chunked;
  f.parts = std::move(parts);
  f.ext = ext;
  f.trailers = trailers;
  return f;
}
Framing clen()
{
  Framing f;
  f.kind = Framing::CL;
  return f;
}

// pipeline atoms (one request each); `seq` = position in the pipeline, carried in a marker header so
// that every request of a pipeline is distinguishable
const size_t kAtoms = 12, kQuickAtoms = 6;
std::string pipelineAtom(size_t i, int seq)
{
  std::string mk = std::string("X-Seq: ") + "pqr"[seq]; // letters outside the hostile substitution alphabet
  switch (i)
  {
  case 0:
    return buildRequest("GET", "/", 0, "", Framing{}, mk);
  case 1:
    return buildRequest("POST", "/", 0, "hello", clen(), mk);
  case 2:
    return buildRequest("POST", "/", 0, "hello", chunked({5}), mk);
  case 3:
    return buildRequest("POST", "/", 0, "hello", chunked({2, 3}, 1, 0), mk);
  case 4:
    return buildRequest("POST", "/", 0, "hello", chunked({5}, 0, 1), mk);
  case 5:
    return buildRequest("POST", "/a/b?x=1&y=2", 3, kBodies[3], clen(), mk);
  // ---- the first six are the quick-tier triple alphabet ----
  case 6:
    return buildRequest("POST", "/", 0, "", clen(), mk);
  case 7:
    return buildRequest("POST", "/", 0, "", chunked({}), mk);
  case 8:
    return buildRequest("POST", "/", 0, "", chunked({}, 0, 2), mk);
  case 9:
    return buildRequest("HEAD", "/", 0, "", Framing{}, mk);
  case 10:
    return buildRequest("POST", "/zz/r%20x", 5, kBodies[3], chunked({1, 4}, 2, 0), mk);
  default:
    return buildRequest("GET", "/a/b?x=1&y=2", 4, "x", chunked({1}, 1, 2), mk);
  }
}

struct InvalidCase
{
  const char *label;
  std::string stream;
};
std::vector<InvalidCase> invalidLengthFamily()
{
  std::vector<InvalidCase> v;
  auto clReq = [](const std::vector<std::string> &clLines, const std::string &rest)
  {
    std::string s = "POST / HTTP/1.1\r\nHost: h\r\n";
    for (auto &l : clLines)
      s += l + "\r\n";
    return s + "\r\n" + rest;
  };
  const std::string next = "GET /a/b?x=1&y=2 HTTP/1.1\r\nHost: h\r\n\r\n";
  v.push_back({"cl-two-different", clReq({"Content-Length: 5", "Content-Length: 3"}, "hello" + next)});
  v.push_back({"cl-two-different-rev", clReq({"Content-Length: 3", "Content-Length: 5"}, "hello" + next)});
  v.push_back({"cl-5abc", clReq({"Content-Length: 5abc"}, "hello" + next)});
  v.push_back({"cl-plus5", clReq({"Content-Length: +5"}, "hello" + next)});
  v.push_back({"cl-list-5-6", clReq({"Content-Length:  5 ,6"}, "hello!" + next)});
  v.push_back({"cl-negative", clReq({"Content-Length: -5"}, "hello" + next)});
  v.push_back({"cl-negative-zero", clReq({"Content-Length: -0"}, next)});
  v.push_back({"cl-empty", clReq({"Content-Length:"}, next)});
  v.push_back({"cl-hex", clReq({"Content-Length: 0x5"}, "hello" + next)});
  v.push_back({"cl-inner-space", clReq({"Content-Length: 5 0"}, "hello" + next)});
  v.push_back({"cl-decimal-point", clReq({"Content-Length: 5.0"}, "hello" + next)});
  v.push_back({"cl-overflow-20-digits", clReq({"Content-Length: 18446744073709551621"}, "hello" + next)});
  v.push_back({"cl-overflow-25-digits", clReq({"Content-Length: 1000000000000000000000005"}, "hello" + next)});
  v.push_back({"cl-and-te", clReq({"Content-Length: 5", "Transfer-Encoding: chunked"}, "5\r\nhello\r\n0\r\n\r\n" + next)});
  v.push_back({"te-and-cl-mismatch", clReq({"Transfer-Encoding: chunked", "Content-Length: 3"}, "5\r\nhello\r\n0\r\n\r\n" + next)});
  auto chReq = [&](const std::string &sizeLine)
  { return "POST / HTTP/1.1\r\nHost: h\r\nTransfer-Encoding: chunked\r\n\r\n" + sizeLine + "\r\nhello\r\n0\r\n\r\n" + next; };
  v.push_back({"chunk-size-FFFFFFFFFFFFFFEC", chReq("FFFFFFFFFFFFFFEC")});
  v.push_back({"chunk-size-FFFFFFFFFFFFFFFF", chReq("FFFFFFFFFFFFFFFF")});
  v.push_back({"chunk-size-FFFFFFFFFFFFFFFE", chReq("FFFFFFFFFFFFFFFE")});
  v.push_back({"chunk-size-FFFFFFFFFFFFFFF7", chReq("FFFFFFFFFFFFFFF7")});
  v.push_back({"chunk-size-8000000000000000", chReq("8000000000000000")});
  // position arithmetic that wraps onto bytes which then look like a last-chunk
  v.push_back({"chunk-size-FFFFFFFFFFFFFFFF-wraps-onto-last-chunk",
               "POST / HTTP/1.1\r\nHost: h\r\nTransfer-Encoding: chunked\r\n\r\nFFFFFFFFFFFFFFFF\r\nx0\r\n\r\n" + next});
  v.push_back({"chunk-size-FFFFFFFFFFFFFFFE-wraps-onto-last-chunk",
               "POST / HTTP/1.1\r\nHost: h\r\nTransfer-Encoding: chunked\r\n\r\nFFFFFFFFFFFFFFFE\r\n0\r\n\r\n" + next});
  v.push_back({"chunk-size-7FFFFFFFFFFFFFFF", chReq("7FFFFFFFFFFFFFFF")});
  v.push_back({"chunk-size-17-hex-digits", chReq("10000000000000005")});
  v.push_back({"chunk-size-17-F", chReq("FFFFFFFFFFFFFFFFF")});
  v.push_back({"chunk-size-negative", chReq("-5")});
  v.push_back({"chunk-size-negative-wrap", chReq("-FFFFFFFFFFFFFFFB")});
  v.push_back({"chunk-size-plus", chReq("+5")});
  v.push_back({"chunk-size-0x", chReq("0x5")});
  v.push_back({"chunk-size-5g", chReq("5g")});
  v.push_back({"chunk-size-empty", chReq("")});
  v.push_back({"chunk-size-empty-ext", chReq(";a=b")});
  v.push_back({"chunk-size-decimal-point", chReq("5.0")});
  return v;
}

struct Hash128
{
  uint64_t a, b;
  bool operator==(const Hash128 &o) const { return a == o.a && b == o.b; }
};
struct Hash128H
{
  size_t operator()(const Hash128 &h) const { return (size_t)h.a; }
};
Hash128 hash128(const std::string &s)
{
  uint64_t a = 1469598103934665603ull, b = 0x9E3779B97F4A7C15ull;
  for (unsigned char c : s)
  {
    a = (a ^ c) * 1099511628211ull;
    b = (b + c + 1) * 0xD6E8FEB86659FD93ull;
    b ^= b >> 29;
  }
  return {a, b ^ (uint64_t)s.size()};
}

const unsigned char kSubst[] = {'\r', '\n', ':', ' ', '0', 'f', ';', 0x00, 0xff};

// ───────────────────────────── the exploration ─────────────────────────────
struct Explorer
{
  const vr::Args &args;
  const vr::Shard &sh;
  vr::Report &r;
  // The worker's own server (with its pool threads) is created on first use, i.e. only after the
  // invalid-length family has run: an isolated child must be forked from a single-threaded process (a
  // fork while a starting pool thread holds a libc / sanitizer-runtime lock can deadlock the child).
  std::unique_ptr<Env> envp;
  Env &localEnv()
  {
    if (!envp)
      envp.reset(new Env());
    return *envp;
  }
  bool thorough;
  uint64_t idx = 0;
  bool stop = false;
  std::unordered_set<Hash128, Hash128H> seen;
  // per-stream cache of the unsplit findings (for segmentation attribution)
  std::string cacheStream;
  bool cacheIsolated = false;
  std::vector<Finding> cacheUnsplit;

  std::string families; // which families this part enumerates: any of D F A B C E

  Explorer(const vr::Args &a, const vr::Shard &s, vr::Report &rep)
      : args(a), sh(s), r(rep), thorough(a.thorough()), families(a.get("families", "DFABCE"))
  {
  }
  bool fam(char c) const { return families.find(c) != std::string::npos; }
  // A stream of a family this part does not enumerate still enters the duplicate filter, so that the
  // parts together evaluate every distinct stream exactly once.
  void consider(char letter, const std::string &name, const std::string &w, int plan)
  {
    if (fam(letter))
      stream(name, w, plan);
    else
      seen.insert(hash128(w));
  }

  // per-stream statistics are kept by worker 0 only (a restarted incarnation continues after the case
  // its predecessor died in)
  bool counting() const { return sh.w == 0 && (!sh.resumed || idx >= sh.resumeAfter); }

  // A worker that dies inside a case loses the report it has not yet written, so the report is
  // flushed to its own part file every kCheckpoint evaluations and restarted empty (bin/check sums the
  // part files of one part name).
  static constexpr uint64_t kCheckpoint = 40000;
  void checkpoint()
  {
    if (r.evaluations < kCheckpoint || !sh.slot)
      return;
    char suf[96];
    snprintf(suf, sizeof suf, ".w%d.i%llu.json", sh.w, (unsigned long long)idx);
    r.write(args.out + suf);
    vr::Report nr(r.part, r.level);
    nr.rule = r.rule;
    nr.bounds = r.bounds;
    nr.exhaustive = r.exhaustive;
    r = nr;
  }

  bool fresh(const std::string &stream)
  {
    bool ins = seen.insert(hash128(stream)).second;
    if (!ins && counting())
      r.counters["duplicate_streams_skipped"]++;
    return ins;
  }

  const std::vector<Finding> &unsplitFindings(const std::string &stream, const c15ref::Parse &ref, bool isolated)
  {
    if (cacheStream != stream || cacheIsolated != isolated)
    {
      CaseResult c = isolated ? evalIsolated(stream, ref, Seg{}) : evalLocal(localEnv(), stream, ref, Seg{});
      cacheUnsplit = c.findings;
      if (c.hang)
        cacheUnsplit.push_back({"terminates", "hang:" + ref.feature, ""});
      cacheStream = stream;
      cacheIsolated = isolated;
    }
    return cacheUnsplit;
  }

  void account(const CaseResult &c)
  {
    r.counters["feeds"] += c.st.feeds;
    r.counters["messages_delivered_to_handlers"] += c.st.delivered;
    r.counters["session_closes"] += c.st.closes;
    r.counters["responses_2xx"] += c.st.resp2xx;
    r.counters["responses_4xx"] += c.st.resp4xx;
    r.counters["responses_5xx"] += c.st.resp5xx;
    r.counters["runs_stopped_feeding_after_close"] += c.st.stoppedAfterClose;
    if (c.st.maxBuf > r.counters["max_session_buffer_bytes"])
      r.counters["max_session_buffer_bytes"] = c.st.maxBuf;
  }

  // Evaluate one (stream, seg) that this worker owns; report findings with segmentation attribution.
  void evaluate(const std::string &fam, const std::string &stream, const c15ref::Parse &ref, const Seg &seg, bool isolated)
  {
    std::string kase = caseText(fam, seg, stream);
    sh.begin(idx, kase);
    CaseResult c = isolated ? evalIsolated(stream, ref, seg) : evalLocal(localEnv(), stream, ref, seg);
    r.evaluations++;
    bool nontrivial = false;
    for (auto &m : ref.msgs)
      if (!m.body.empty() || m.framing != "none")
        nontrivial = true;
    if (ref.msgs.size() > 1 || ref.tail != c15ref::Tail::Complete)
      nontrivial = true;
    if (nontrivial)
      r.distinct_nontrivial++;
    account(c);
    if (c.forkedFromThreads > 1)
      r.violation("harness-internal", "isolated-child-forked-from-multithreaded-worker", kase,
                  "the forking worker had " + std::to_string(c.forkedFromThreads) + " threads");
    if (c.hang)
    {
      r.violation("terminates", "hang:" + ref.feature, kase,
                  "HttpServer::handleIncomingData did not return: the isolated child burnt its CPU budget without finishing (reference verdict: " +
                    std::string(c15ref::tailName(ref.tail)) + ", " + ref.feature + ")");
      r.counters["hangs"]++;
    }
    if (c.crash)
      r.violation("no-crash-no-ub", "crash:isolated-child", kase, c.crashInfo);
    if (!c.findings.empty())
    {
      for (auto &f : c.findings)
      {
        if (seg.kind == Seg::Unsplit || seg.kind == Seg::Pieces)
        {
          r.violation(f.clause, f.sig, kase, f.detail);
          continue;
        }
        const std::vector<Finding> &un = unsplitFindings(stream, ref, isolated);
        if (hasFinding(un, f) || f.sig.compare(0, 32, "message-lost:closed-before-read:") == 0)
        {
          r.violation(f.clause, f.sig, kase, f.detail);
          continue;
        }
        std::string where;
        if (seg.kind == Seg::Bytes)
          where = "byte-at-a-time";
        else if (!seg.c2)
          where = "cut@" + c15ref::cutRegion(ref, seg.c1);
        else
        {
          // attribute a failing pair to the single cut that already fails, if any
          bool a1 = false, a2 = false;
          {
            CaseResult s1 = isolated ? evalIsolated(stream, ref, Seg::cut(seg.c1)) : evalLocal(localEnv(), stream, ref, Seg::cut(seg.c1));
            a1 = hasFinding(s1.findings, f);
            if (!a1)
            {
              CaseResult s2 = isolated ? evalIsolated(stream, ref, Seg::cut(seg.c2)) : evalLocal(localEnv(), stream, ref, Seg::cut(seg.c2));
              a2 = hasFinding(s2.findings, f);
            }
          }
          if (a1)
            where = "cut@" + c15ref::cutRegion(ref, seg.c1);
          else if (a2)
            where = "cut@" + c15ref::cutRegion(ref, seg.c2);
          else
            where = "cuts@" + c15ref::cutRegion(ref, seg.c1) + "&" + c15ref::cutRegion(ref, seg.c2);
        }
        r.violation("segmentation-independent", where + ":" + f.sig, kase,
                    "holds on the unsplit feed but not with segmentation " + seg.str() + " -- " + f.detail);
      }
    }
    sh.end();
  }

  enum SegPlan
  {
    Basic = 1,   // unsplit + every single cut + byte-at-a-time
    Pairs = 2,   // + every pair of cuts
    Hostile = 4, // unsplit + cut before/after position `at` (+ byte-at-a-time if HostileBytes)
    HostileBytes = 8
  };

  // Enumerate the segmentations of one stream.  The reference parse is computed lazily (only if this
  // worker owns at least one of the cases).
  void stream(const std::string &fam, const std::string &s, int plan, bool isolated = false, size_t at = 0)
  {
    if (stop)
      return;
    if (!fresh(s))
      return;
    checkpoint();
    if (sh.timeUp())
    {
      stop = true;
      r.exhaustive = false;
      r.notes.push_back("deadline reached: enumeration stopped early");
      return;
    }
    c15ref::Parse ref;
    bool haveRef = false;
    auto one = [&](const Seg &g)
    {
      ++idx;
      if (!sh.mine(idx))
        return;
      if (!haveRef)
      {
        ref = c15ref::parseStream(s);
        haveRef = true;
      }
      evaluate(fam, s, ref, g, isolated);
    };
    size_t L = s.size();
    if (counting())
    {
      r.counters["streams"]++;
      r.counters["streams_" + fam.substr(0, fam.find(':'))]++;
      if (L > r.counters["max_stream_bytes"])
        r.counters["max_stream_bytes"] = L;
      // verdict statistics, once per stream
      c15ref::Parse p = c15ref::parseStream(s);
      r.counters[std::string("ref_tail_") + c15ref::tailName(p.tail)]++;
      r.counters["ref_messages"] += p.msgs.size();
      r.sampleEvery(fam == "hostile" ? 50021 : 401, caseText(fam, Seg{}, s));
    }
    one(Seg{});
    if (plan & (Basic | Pairs))
    {
      for (size_t c = 1; c < L; ++c)
        one(Seg::cut(c));
      one(Seg::bytes());
    }
    if (plan & Pairs)
      for (size_t c1 = 1; c1 < L; ++c1)
        for (size_t c2 = c1 + 1; c2 < L; ++c2)
          one(Seg::cut(c1, c2));
    if (plan & Hostile)
    {
      if (at >= 1 && at < L)
        one(Seg::cut(at));
      if (at + 1 < L)
        one(Seg::cut(at + 1));
      if (plan & HostileBytes)
        one(Seg::bytes());
    }
  }

  // reference self-check: the generator's intent must equal the reference's reading of the wire bytes
  void selfCheck(const std::string &wire, const std::string &method, const std::string &target, const std::string &body)
  {
    if (!counting())
      return;
    c15ref::Parse p = c15ref::parseStream(wire);
    if (p.tail != c15ref::Tail::Complete || p.msgs.size() != 1 || p.msgs[0].method != method || p.msgs[0].target != target ||
        p.msgs[0].body != body)
      r.violation("harness-internal", "reference-disagrees-with-generator", caseText("selfcheck", Seg{}, wire),
                  "reference verdict " + std::string(c15ref::tailName(p.tail)) + " " + p.feature + " msgs=" + std::to_string(p.msgs.size()));
  }

  void hostile(const std::string &base, bool bytesToo)
  {
    for (size_t p = 0; p < base.size() && !stop; ++p)
      for (unsigned char c : kSubst)
      {
        if ((unsigned char)base[p] == c)
          continue;
        std::string m = base;
        m[p] = (char)c;
        stream("hostile", m, Hostile | (bytesToo ? HostileBytes : 0), false, p);
      }
  }

  // never-terminated streams against the real buffer cap
  void capFamily()
  {
    const size_t CAP = Env::CAP;
    const size_t total = CAP + 3 * 65536;
    struct C
    {
      const char *name;
      std::string head, unit;
    };
    std::vector<C> cs;
    const std::string te = "POST / HTTP/1.1\r\nHost: h\r\nTransfer-Encoding: chunked\r\n\r\n";
    cs.push_back({"header-value-never-terminated", "GET / HTTP/1.1\r\nHost: h\r\nX-Pad: ", "a"});
    cs.push_back({"header-section-never-terminated", "GET / HTTP/1.1\r\nHost: h\r\n", "X-N: v\r\n"});
    cs.push_back({"request-line-never-terminated", "GET /", "a"});
    cs.push_back({"cl-body-never-complete",
                  "POST / HTTP/1.1\r\nHost: h\r\nContent-Length: " + std::to_string(HttpServer::SessionInfo::MAX_BODY_SIZE) + "\r\n\r\n", "b"});
    cs.push_back({"cl-over-max-body",
                  "POST / HTTP/1.1\r\nHost: h\r\nContent-Length: " + std::to_string(HttpServer::SessionInfo::MAX_BODY_SIZE + 1) + "\r\n\r\n", "b"});
    cs.push_back({"chunk-data-never-complete", te + "7fffffff\r\n", "c"});
    cs.push_back({"chunks-never-last", te, "1\r\na\r\n"});
    cs.push_back({"chunk-ext-never-terminated", te + "5;e=", "e"});
    cs.push_back({"chunk-size-digits-never-terminated", te, "0"});
    cs.push_back({"trailer-section-never-terminated", te + "0\r\n", "X-T: v\r\n"});
    std::vector<size_t> pieces = {65536, 4093};
    if (thorough)
      pieces.push_back(509);
    for (auto &c : cs)
      for (size_t pc : pieces)
      {
        if (stop)
          return;
        if (sh.timeUp())
        {
          stop = true;
          r.exhaustive = false;
          r.notes.push_back("deadline reached: enumeration stopped early");
          return;
        }
        ++idx;
        if (counting())
        {
          r.counters["streams"]++;
          r.counters["streams_cap"]++;
        }
        if (!sh.mine(idx))
          continue;
        std::string s = c.head;
        while (s.size() < total)
          s += c.unit;
        c15ref::Parse ref = c15ref::parseStream(s);
        std::string kase = "C15S1 fam=cap:" + std::string(c.name) + " seg=p" + std::to_string(pc) + "\n";
        sh.begin(idx, kase);
        uint64_t myIdx = idx;
        Env &env = localEnv();
        env.heartbeat = [this, myIdx, kase]() { sh.begin(myIdx, kase); };
        CaseResult cr = evalLocal(env, s, ref, Seg::pieces(pc));
        env.heartbeat = nullptr;
        r.evaluations++;
        r.distinct_nontrivial++;
        account(cr);
        for (auto &f : cr.findings)
          r.violation(f.clause, std::string(c.name) + ":" + f.sig, kase, f.detail);
        sh.end();
      }
  }

  void runAll()
  {
    r.rule = "a case = (request byte stream, segmentation); non-trivial = the reference frames at least one message with a body or "
             "explicit framing, or more than one message, or the stream ends in something other than a complete message";
    r.bounds["families_of_this_part"] = families + "  (D invalid-length, F caps, A framing-exhaustive, B header-exhaustive, C pipelines, E hostile substitutions)";
    r.bounds["methods"] = "GET POST HEAD";
    r.bounds["targets"] = "/ ; /a/b?x=1&y=2 ; /zz/r%20x";
    r.bounds["header_sets"] = "7 (case variants, no/extra OWS, HTAB, empty value, list values, repeated Via, decoy names, framing first/last)";
    r.bounds["bodies"] = "'' 'x' 'hello' CRLF-0-CRLF 'hello world'";
    r.bounds["framing"] = "none, Content-Length (N, 00N), chunked: every composition of the body into <=3 chunks x size format {hex, 0HEX} x "
                          "extensions {none, ;a=b on every line, ;q=\"x y\";n} x trailers {0,1,2}";
    r.bounds["pipelines"] = thorough ? "all sequences of 2 and 3 of 12 atoms" : "all sequences of 2 of 12 atoms, all sequences of 3 of 6 atoms";
    r.bounds["segmentations"] = thorough ? "unsplit, every single cut, byte-at-a-time for every stream; every pair of cuts for families A, B, 2-pipelines and the 3-pipelines over the first 6 atoms"
                                         : "unsplit, every single cut, byte-at-a-time for every stream; every pair of cuts for family A restricted to POST/header set 0/hex sizes";
    r.bounds["hostile"] = "every single-byte substitution over {CR LF : SP 0 f ; NUL 0xff} of each base stream, fed unsplit, cut before and after the substituted byte" +
                          std::string(thorough ? ", and byte-at-a-time" : " (byte-at-a-time on a subset)");
    r.bounds["caps"] = "never-terminated request line / header value / header section / CL body / chunk data / chunk list / chunk ext / size digits / trailer "
                       "section, fed up to MAX_BUFFER_SIZE + 192 KiB in pieces of 65536, 4093" +
                       std::string(thorough ? ", 509" : "") + " bytes";

    // ---- D: invalid length information (isolated children, specific hang attribution); first, so a
    //         deadline can never cut it ----
    for (auto &ic : invalidLengthFamily())
    {
      if (fam('D'))
        stream(std::string("invalid:") + ic.label, ic.stream, Basic, /*isolated=*/true);
      else
        seen.insert(hash128(ic.stream));
    }

    // ---- F: caps ----
    if (fam('F'))
      capFamily();

    // ---- A: framing-exhaustive ----
    for (int mi = 0; mi < 3 && !stop; ++mi)
      for (int hs = 0; hs < 2 && !stop; ++hs)
        for (auto &body : kBodies)
          for (auto &f : allFramings(body, false))
          {
            std::string w = buildRequest(kMethods[mi], "/", hs, body, f);
            selfCheck(w, kMethods[mi], "/", f.kind == Framing::None ? "" : body);
            bool pairs = thorough || (mi == 1 && hs == 0 && f.sizeFmt == 0);
            consider('A', "A", w, pairs ? Pairs : Basic);
          }
    // ---- B: header-exhaustive ----
    std::vector<std::string> familyB;
    for (int mi = 0; mi < 3 && !stop; ++mi)
      for (int ti = 0; ti < 3; ++ti)
        for (int hs = 0; hs < kHeaderSets; ++hs)
        {
          std::vector<std::pair<std::string, Framing>> fr = {
            {"", Framing{}}, {"hello", clen()}, {"hello", chunked({2, 3}, 1, 1)}, {"hello", chunked({5})}};
          for (auto &bf : fr)
          {
            std::string w = buildRequest(kMethods[mi], kTargets[ti], hs, bf.first, bf.second);
            selfCheck(w, kMethods[mi], kTargets[ti], bf.first);
            familyB.push_back(w);
            consider('B', "B", w, thorough ? Pairs : Basic);
          }
        }
    // ---- C: pipelines ----
    std::vector<std::string> pipes2;
    for (size_t i = 0; i < kAtoms && !stop; ++i)
      for (size_t j = 0; j < kAtoms; ++j)
      {
        std::string w = pipelineAtom(i, 0) + pipelineAtom(j, 1);
        pipes2.push_back(w);
        consider('C', "C2", w, thorough ? Pairs : Basic);
      }
    size_t n3 = thorough ? kAtoms : kQuickAtoms;
    for (size_t i = 0; i < n3 && !stop; ++i)
      for (size_t j = 0; j < n3; ++j)
        for (size_t k = 0; k < n3; ++k)
          consider('C', "C3", pipelineAtom(i, 0) + pipelineAtom(j, 1) + pipelineAtom(k, 2),
                   thorough && i < kQuickAtoms && j < kQuickAtoms && k < kQuickAtoms ? Pairs : Basic);
    // ---- E: hostile single-byte substitutions ----
    if (!fam('E'))
    {
    }
    else if (thorough)
    {
      for (auto &b : familyB)
        hostile(b, true);
      for (int mi = 0; mi < 3; ++mi)
        for (int hs = 0; hs < 2; ++hs)
          for (auto &body : kBodies)
            for (auto &f : allFramings(body, false))
              hostile(buildRequest(kMethods[mi], "/", hs, body, f), mi == 1 && hs == 0);
      for (auto &p : pipes2)
        hostile(p, true);
    }
    else
    {
      // POST x every target x every header set x 4 framings (also byte-at-a-time); the framing-exhaustive
      // family for POST / header set 0 / hex sizes / body 'hello'; the 2-pipelines over the first 6 atoms
      for (int ti = 0; ti < 3; ++ti)
        for (int hs = 0; hs < kHeaderSets; ++hs)
        {
          hostile(buildRequest("POST", kTargets[ti], hs, "", Framing{}), true);
          hostile(buildRequest("POST", kTargets[ti], hs, "hello", clen()), true);
          hostile(buildRequest("POST", kTargets[ti], hs, "hello", chunked({2, 3}, 1, 1)), true);
          hostile(buildRequest("POST", kTargets[ti], hs, "hello", chunked({5})), true);
        }
      for (auto &f : allFramings("hello", true))
        hostile(buildRequest("POST", "/", 0, "hello", f), false);
      for (size_t i = 0; i < kQuickAtoms; ++i)
        for (size_t j = 0; j < kQuickAtoms; ++j)
          hostile(pipelineAtom(i, 0) + pipelineAtom(j, 1), false);
    }
    if (sh.w == 0 && !stop)
      r.counters["max_cases_enumerated"] = idx;
  }
};

int replay(const vr::Args &args)
{
  std::string c = vr::readFile(args.replay);
  std::string fam, stream;
  Seg seg;
  if (!parseCase(c, fam, seg, stream))
  {
    printf("replay: cannot parse case file\n");
    return 2;
  }
  if (fam.compare(0, 4, "cap:") == 0)
  {
    // regenerate the never-terminated stream of that name
    vr::Report rep("replay");
    vr::Shard sh;
    Explorer ex(args, sh, rep);
    ex.thorough = true;
    ex.capFamily();
    int n = 0;
    for (auto &v : rep.violations)
      if (v.kase == c)
      {
        printf("VIOLATION clause=%s sig=%s :: %s\n", v.clause.c_str(), v.sig.c_str(), v.detail.substr(0, 600).c_str());
        ++n;
      }
    printf("replay: %d finding(s) for %s", n, c.c_str());
    return n ? 1 : 0;
  }
  c15ref::Parse ref = c15ref::parseStream(stream);
  printf("stream: %zu bytes, segmentation %s\nreference: %zu message(s), then %s %s\n", stream.size(), seg.str().c_str(), ref.msgs.size(),
         c15ref::tailName(ref.tail), ref.feature.c_str());
  for (auto &m : ref.msgs)
    printf("  expected: %s\n", vr::jstr(fromRef(m).show()).c_str());
  CaseResult r = evalIsolated(stream, ref, seg, 3.0);
  int n = 0;
  if (r.hang)
  {
    printf("VIOLATION clause=terminates sig=hang:%s :: handleIncomingData did not return (child killed after burning its CPU budget)\n",
           ref.feature.c_str());
    ++n;
  }
  if (r.crash)
  {
    printf("VIOLATION clause=no-crash-no-ub :: %s\n", r.crashInfo.c_str());
    ++n;
  }
  for (auto &f : r.findings)
  {
    printf("VIOLATION clause=%s sig=%s :: %s\n", f.clause.c_str(), f.sig.c_str(), vr::jstr(f.detail.substr(0, 600)).c_str());
    ++n;
  }
  printf("delivered=%llu responses: 2xx=%llu 4xx=%llu 5xx=%llu closes=%llu\n", (unsigned long long)r.st.delivered, (unsigned long long)r.st.resp2xx,
         (unsigned long long)r.st.resp4xx, (unsigned long long)r.st.resp5xx, (unsigned long long)r.st.closes);
  printf("replay: %d finding(s)\n", n);
  return n ? 1 : 0;
}

} // namespace

int main(int argc, char **argv)
{
  vr::Args args(argc, argv);
  iora::core::Logger::setLevel(iora::core::Logger::Level::Fatal);
  if (!args.replay.empty())
    return replay(args);
  double deadline = (double)args.getInt("deadline", 0);
  if (deadline > 30)
    deadline -= 15; // leave time to write the reports
  vr::run_sharded(args, args.get("name", "C15_server"), "exploration", /*stall_s=*/15.0, deadline,
                  [&](const vr::Shard &sh, vr::Report &r)
                  {
                    Explorer ex(args, sh, r);
                    ex.runAll();
                  });
  return 0;
}

// C05: stopping or destroying a transport never strands, crashes or races.
//
// Real code under test: Transport (teardown handshake, deferred self-destruction, I/O-thread guards)
// over the real TcpEngine / UdpEngine on the rt/simk kernel.  Each scenario combines a teardown
// actor with 1-2 concurrently running operations and is explored under every interleaving within
// the deviation bounds, in two builds:
//   A (ASan)            use-after-free / double free / heap overflow are fatal and attributed
//   T (-DMC_TSAN)       plain accesses to the Transport::Impl object and to the engine object are
//                       checked against C++ happens-before on every enumerated interleaving
//
// Oracle clauses:
//   no-deadlock / bounded-time   every thread of the scenario finishes (virtual-time horizon 60 s)
//   definite-result              each concurrently issued call returns a value / documented error / documented exception
//   fails-cleanly-after          operations issued after teardown completed return failure, never hang or crash
//   no-callback-after-stop       no callback is logged at a later step than the one at which stop() returned to a
//                                non-callback caller
//   no-crash-no-ub (A)           no sanitizer report;   no-data-race (T)   no unordered conflicting access pair
#include "mc.h"
#include "simk.h"
#ifdef MC_TSAN
#include "tsan_shim.h"
#include "stdthread_shim.hpp"
#endif
#include <iora/network/transport.hpp>
#include <iora/network/transport_impl.hpp>

#include <arpa/inet.h>
#include <netinet/in.h>
#include <sys/socket.h>
#include <sched.h>
#include <unistd.h>

#include <sstream>
#include <condition_variable>
#include <mutex>
#include <thread>

using namespace iora::network;

namespace
{
sockaddr_in addr(const char *ip, uint16_t port)
{
  sockaddr_in a{};
  a.sin_family = AF_INET;
  a.sin_port = htons(port);
  inet_pton(AF_INET, ip, &a.sin_addr);
  return a;
}

struct World
{
  std::shared_ptr<Transport> t;
  Transport *raw = nullptr;
  SessionId sid = 0;
  int peerFd = -1, lfd = -1;
  uint64_t lastCallbackStep = 0;
  uint64_t stopReturnedStep = 0;
  bool udp = false;
  std::string inbound;
  // harness-side rendezvous: set (and signalled) by the data callback when it runs inside the caller's own flush
  std::mutex hm;
  std::condition_variable hcv;
  bool inFlushCb = false;
};

// A Sync->Async flush hands buffered bytes to the data callback ON THE CALLER'S OWN THREAD as part of that
// in-flight setReadMode() call; such a delivery is the call's result, not the transport invoking callbacks after
// stop(), and is therefore not judged by no-callback-after-stop.
thread_local bool tl_inOwnFlush = false;
void cbLogged(World &w)
{
  // the start of a user callback is a visible event: give the scheduler a point right before it, so that "stop()
  // returns on another thread between the transport's decision to call back and the callback body" is explorable
  mc_yield_point("callback");
  if (!tl_inOwnFlush)
    w.lastCallbackStep = mc_step();
}

void watch(World &w)
{
#ifdef MC_TSAN
  mc_watch(w.raw->_impl.get(), sizeof(Transport::Impl), "transport.impl", false);
  if (w.udp)
    mc_watch(w.raw->_impl->engine.get(), sizeof(UdpEngine), "udp.engine", false);
  else
    mc_watch(w.raw->_impl->engine.get(), sizeof(TcpEngine), "tcp.engine", false);
#else
  (void)w;
#endif
}
void unwatch(World &w, void *impl, void *eng)
{
#ifdef MC_TSAN
  mc_unwatch(impl);
  mc_unwatch(eng);
#else
  (void)impl;
  (void)eng;
#endif
  (void)w;
}

// Build a started transport with one established session (TCP: connected to a harness listener).
void setup(World &w, bool udp, bool withSession)
{
  simk_cfg.tcpRcvBuf = 8;
  simk_cfg.shortIo = false;
  simk_route("127.0.0.1", 9103, SIMK_BLACKHOLE);
  w.udp = udp;
  TransportConfig cfg;
  cfg.enableHighResolutionTimers = false;
  cfg.gcInterval = std::chrono::seconds(30);
  w.t = udp ? Transport::udp(cfg) : Transport::tcp(cfg);
  w.raw = w.t.get();
  World *wp = &w;
  w.t->onAccept([wp](SessionId s, const TransportAddress &) { wp->sid = s; cbLogged(*wp); });
  w.t->onConnect([wp](SessionId s, const TransportAddress &) { wp->sid = s; cbLogged(*wp); });
  w.t->onData(
    [wp](SessionId, iora::core::BufferView d, std::chrono::steady_clock::time_point)
    {
      wp->inbound.append((const char *)d.data(), d.size());
      cbLogged(*wp);
      if (tl_inOwnFlush)
      {
        {
          std::lock_guard<std::mutex> g(wp->hm);
          wp->inFlushCb = true;
        }
        wp->hcv.notify_all();
      }
    });
  w.t->onClose([wp](SessionId, const TransportErrorInfo &) { cbLogged(*wp); });
  watch(w);
  if (w.t->start().isErr())
    mc_violation("harness-internal", "start", "start failed");
  if (!withSession)
    return;
  if (udp)
  {
    w.peerFd = ::socket(AF_INET, SOCK_DGRAM | SOCK_NONBLOCK, 0);
    sockaddr_in a = addr("127.0.0.1", 7001);
    ::bind(w.peerFd, (sockaddr *)&a, sizeof a);
    auto r = w.t->connect("127.0.0.1", 7001, TlsMode::None);
    if (r.isErr())
      mc_violation("harness-internal", "connect", "udp connect failed");
    mc_quiesce();
    w.sid = r.value();
    return;
  }
  w.lfd = ::socket(AF_INET, SOCK_STREAM | SOCK_NONBLOCK, 0);
  sockaddr_in la = addr("127.0.0.1", 9100);
  ::bind(w.lfd, (sockaddr *)&la, sizeof la);
  ::listen(w.lfd, 8);
  auto r = w.t->connect("127.0.0.1", 9100, TlsMode::None);
  if (r.isErr())
    mc_violation("harness-internal", "connect", "connect failed");
  mc_quiesce();
  w.peerFd = ::accept4(w.lfd, nullptr, nullptr, SOCK_NONBLOCK);
  mc_quiesce();
  if (!w.sid)
    mc_violation("harness-internal", "not-connected", "session not announced");
}

void finish(World &w)
{
  if (w.stopReturnedStep && w.lastCallbackStep > w.stopReturnedStep)
    mc_violation("no-callback-after-stop", "callback-after-stop-returned", "a callback ran at step " + std::to_string(w.lastCallbackStep) + ", stop() had returned at step " + std::to_string(w.stopReturnedStep));
  if (w.peerFd >= 0)
    ::close(w.peerFd);
  if (w.lfd >= 0)
    ::close(w.lfd);
}

bool definite(TransportError c)
{
  return c == TransportError::Timeout || c == TransportError::Cancelled || c == TransportError::ShuttingDown || c == TransportError::PeerClosed ||
         c == TransportError::Socket || c == TransportError::Connect || c == TransportError::Unknown || c == TransportError::BufferOverflow ||
         c == TransportError::Config || c == TransportError::Bind || c == TransportError::Listen;
}

// after teardown completed: operations must fail cleanly
void afterChecks(World &w)
{
  bool s = w.raw->send(w.sid, iora::core::BufferView{(const uint8_t *)"x", 1});
  if (s)
    mc_violation("fails-cleanly-after", "send-accepted-after-stop", "send() returned true after stop() had returned");
  auto c = w.raw->connect("127.0.0.1", 9100, TlsMode::None);
  if (c.isOk())
    mc_violation("fails-cleanly-after", "connect-accepted-after-stop", "connect() returned a session id after stop() had returned");
  bool cl = w.raw->close(w.sid);
  (void)cl;
  auto st = w.raw->getStats();
  (void)st;
  if (w.raw->isRunning())
    mc_violation("fails-cleanly-after", "running-after-stop", "isRunning() is true after stop() returned");
}

enum Op
{
  OP_RECEIVE_SYNC,
  OP_CONNECT_SYNC,
  OP_FLUSH,
  OP_SEND_CLOSE,
  OP_CONNECT,
  OP_ADD_LISTENER,
  OP_STATS,
  OP_NONE
};
enum Teardown
{
  TD_STOP,
  TD_DROP, // last shared_ptr dropped on an app thread while callers hold only a raw pointer and are parked
  TD_STOP_TWICE,
  TD_STOP_DROP, // stop() first, then the last shared_ptr is dropped while callers are still inside (engine already stopped at destruction)
};

void runOp(World &w, Op op, const char *who)
{
  mc_label((std::string(who) + ":op" + std::to_string(int(op))).c_str());
  switch (op)
  {
  case OP_RECEIVE_SYNC:
  {
    char b[8];
    size_t n = sizeof b;
    auto r = w.raw->receiveSync(w.sid, b, n, std::chrono::milliseconds(200));
    if (r.isErr() && !definite(r.error().code))
      mc_violation("definite-result", "receiveSync-code:" + std::to_string(int(r.error().code)), "receiveSync returned error code " + std::to_string(int(r.error().code)));
    mc_obs("%s receiveSync=%s", who, r.isOk() ? "ok" : std::to_string(int(r.error().code)).c_str());
    break;
  }
  case OP_CONNECT_SYNC:
  {
    auto r = w.raw->connectSync("127.0.0.1", 9103, TlsMode::None, std::chrono::milliseconds(200));
    if (r.isErr() && !definite(r.error().code))
      mc_violation("definite-result", "connectSync-code:" + std::to_string(int(r.error().code)), "connectSync returned error code " + std::to_string(int(r.error().code)));
    if (r.isOk())
      mc_violation("definite-result", "connectSync-ok-to-black-hole", "connectSync to a black hole returned ok");
    mc_obs("%s connectSync=%d", who, r.isOk() ? 0 : int(r.error().code));
    break;
  }
  case OP_FLUSH:
  {
    tl_inOwnFlush = true;
    bool ok = w.raw->setReadMode(w.sid, ReadMode::Async);
    tl_inOwnFlush = false;
    mc_obs("%s flush=%d", who, int(ok));
    break;
  }
  case OP_SEND_CLOSE:
  {
    bool a = w.raw->send(w.sid, iora::core::BufferView{(const uint8_t *)"hey", 3});
    bool b = w.raw->close(w.sid);
    mc_obs("%s send=%d close=%d", who, int(a), int(b));
    break;
  }
  case OP_CONNECT:
  {
    auto r = w.raw->connect("127.0.0.1", 9100, TlsMode::None);
    mc_obs("%s connect=%d", who, int(r.isOk()));
    break;
  }
  case OP_ADD_LISTENER:
  {
    auto r = w.raw->addListener("127.0.0.1", 9001, TlsMode::None);
    if (r.isErr() && !definite(r.error().code))
      mc_violation("definite-result", "addListener-code:" + std::to_string(int(r.error().code)), "addListener returned error code " + std::to_string(int(r.error().code)));
    mc_obs("%s addListener=%d", who, int(r.isOk()));
    break;
  }
  case OP_STATS:
  {
    for (int i = 0; i < 2; ++i)
    {
      auto st = w.raw->getStats();
      (void)st;
      (void)w.raw->isRunning();
      ReadMode m;
      (void)w.raw->getReadMode(w.sid, m);
    }
    break;
  }
  case OP_NONE:
    break;
  }
  mc_label((std::string(who) + ":done").c_str());
}

struct Scn
{
  const char *name;
  bool udp;
  Op a, b;
  Teardown td;
  int qP, tP;
  bool opsFirst = false; // the operation threads get to run before the teardown actor's first step (default order only)
};

void runGeneric(const Scn &sc)
{
  mc_label("main:setup");
  World w;
  setup(w, sc.udp, true);
  bool parkedOps = sc.a == OP_RECEIVE_SYNC || sc.a == OP_CONNECT_SYNC;
  if (sc.a == OP_RECEIVE_SYNC || sc.a == OP_FLUSH || sc.b == OP_FLUSH)
  {
    w.raw->setReadMode(w.sid, ReadMode::Sync);
    if (sc.a == OP_FLUSH || sc.b == OP_FLUSH)
    {
      // buffer a few bytes so that the flush really has something to hand to the callback
      if (sc.udp)
      {
        sockaddr_in dst{};
        socklen_t l = sizeof dst;
        (void)dst;
        (void)l;
      }
      else
        ::send(w.peerFd, "abc", 3, 0);
      mc_quiesce();
    }
  }
  void *implPtr = w.raw->_impl.get();
  void *engPtr = w.raw->_impl->engine.get();
  std::vector<std::thread> th;
  if (sc.a != OP_NONE)
    th.emplace_back([&]() { runOp(w, sc.a, "A"); });
  if (sc.b != OP_NONE)
    th.emplace_back([&]() { runOp(w, sc.b, "B"); });
  if (sc.opsFirst)
    sched_yield(); // the others run first by default; "teardown first" stays reachable with one preemption
  mc_label("main:teardown");
  if (sc.td == TD_DROP || sc.td == TD_STOP_DROP)
  {
    // destroying while callers are inside is only legitimate once they are parked (counted by the handshake)
    if (parkedOps)
      mc_quiesce();
    else if (sc.a == OP_FLUSH)
    {
      // a flush in progress is counted by the teardown handshake (activeFlushes): the last owner may be released
      // while the flushing thread is inside the user callback
      std::unique_lock<std::mutex> lk(w.hm);
      w.hcv.wait(lk, [&] { return w.inFlushCb; });
    }
    else
    {
      for (auto &x : th)
        x.join();
      th.clear();
    }
    if (sc.td == TD_STOP_DROP)
    {
      w.raw->stop();
      mc_obs("stop returned");
    }
    unwatch(w, implPtr, engPtr);
    w.t.reset();
    w.stopReturnedStep = mc_step();
    mc_obs("destroyed");
    for (auto &x : th)
      x.join();
    mc_quiesce();
    finish(w);
    return;
  }
  w.raw->stop();
  w.stopReturnedStep = mc_step();
  mc_obs("stop returned");
  if (sc.td == TD_STOP_TWICE)
    w.raw->stop();
  mc_label("main:join");
  for (auto &x : th)
    x.join();
  mc_quiesce();
  afterChecks(w);
  finish(w);
  mc_label("main:destroy");
  unwatch(w, implPtr, engPtr);
  w.t.reset();
}

// stop() attempted inside a callback must fail cleanly (logic_error), the transport keeps working
void stopInCallback(bool udp)
{
  mc_label("main:setup");
  World w;
  setup(w, udp, true);
  bool threw = false, returned = false;
  World *wp = &w;
  w.t->onData(
    [&, wp](SessionId, iora::core::BufferView, std::chrono::steady_clock::time_point)
    {
      try
      {
        wp->raw->stop();
        returned = true;
      }
      catch (const std::logic_error &)
      {
        threw = true;
      }
      try
      {
        char b[4];
        size_t n = 4;
        wp->raw->receiveSync(wp->sid, b, n, std::chrono::milliseconds(10));
        returned = true;
      }
      catch (const std::logic_error &)
      {
      }
    });
  if (udp)
  {
    // the engine's connected UDP socket: find its local port through the session address
    auto la = w.t->getLocalAddress(w.sid);
    sockaddr_in dst = addr("127.0.0.1", la.port);
    ::sendto(w.peerFd, "x", 1, 0, (sockaddr *)&dst, sizeof dst);
  }
  else
    ::send(w.peerFd, "x", 1, 0);
  mc_quiesce();
  if (!threw || returned)
    mc_violation("definite-result", "stop-in-callback-not-refused", std::string("stop()/receiveSync() inside a data callback: threw=") + (threw ? "1" : "0") + " returned=" + (returned ? "1" : "0"));
  if (!w.raw->isRunning())
    mc_violation("definite-result", "transport-stopped-by-refused-stop", "the refused stop() stopped the transport anyway");
  void *implPtr = w.raw->_impl.get();
  void *engPtr = w.raw->_impl->engine.get();
  w.raw->stop();
  w.stopReturnedStep = mc_step();
  afterChecks(w);
  finish(w);
  unwatch(w, implPtr, engPtr);
  w.t.reset();
}

// sole owner releases the transport inside onClose / onData on the I/O thread (deferred self-destruction)
void releaseInCallback(bool udp, bool inData)
{
  mc_label("main:setup");
  World w;
  setup(w, udp, true);
  void *implPtr = w.raw->_impl.get();
  void *engPtr = w.raw->_impl->engine.get();
  auto holder = std::make_shared<std::shared_ptr<Transport>>(std::move(w.t));
  bool released = false;
  World *wp = &w;
  auto release = [&, wp, holder]()
  {
    if (released)
      return;
    released = true;
    unwatch(*wp, implPtr, engPtr); // the objects are about to be freed by the owner: stop judging accesses to freed memory (ASan's job)
    holder->reset();
  };
  if (inData)
    (*holder)->onData([&, release](SessionId, iora::core::BufferView, std::chrono::steady_clock::time_point) { cbLogged(*wp); release(); });
  else
    (*holder)->onClose([&, release](SessionId, const TransportErrorInfo &) { cbLogged(*wp); release(); });
  // a second thread is parked in receiveSync through a raw pointer while the owner goes away (TCP only)
  std::thread parked;
  if (!udp && !inData)
  {
    w.raw->setReadMode(w.sid, ReadMode::Sync);
    parked = std::thread([&]() { runOp(w, OP_RECEIVE_SYNC, "A"); });
    mc_quiesce();
  }
  mc_label("main:trigger");
  if (udp)
  {
    if (inData)
    {
      auto la = w.raw->getLocalAddress(w.sid);
      sockaddr_in dst = addr("127.0.0.1", la.port);
      ::sendto(w.peerFd, "x", 1, 0, (sockaddr *)&dst, sizeof dst);
    }
    else
      w.raw->close(w.sid);
  }
  else
  {
    if (inData)
      ::send(w.peerFd, "x", 1, 0);
    else
    {
      ::close(w.peerFd);
      w.peerFd = -1;
    }
  }
  mc_quiesce();
  if (parked.joinable())
    parked.join();
  mc_quiesce(50ull * 1000000ull);
  if (!released)
    mc_violation("harness-internal", "callback-not-run", "the releasing callback never ran");
  if (w.peerFd >= 0)
    ::close(w.peerFd);
  if (w.lfd >= 0)
    ::close(w.lfd);
  mc_quiesce();
  if (simk_open_fds() != 0)
    mc_violation("no-deadlock", "engine-resources-left-after-self-destruct", std::to_string(simk_open_fds()) + " simulated descriptors still open after the owner released the transport inside a callback (I/O thread did not wind down)");
}

// start -> stop -> start -> stop with traffic in between
void restartCycle(bool udp)
{
  mc_label("main:setup");
  World w;
  setup(w, udp, true);
  void *implPtr = w.raw->_impl.get();
  void *engPtr = w.raw->_impl->engine.get();
  std::thread a([&]() { runOp(w, OP_SEND_CLOSE, "A"); });
  w.raw->stop();
  a.join();
  if (w.peerFd >= 0)
  {
    ::close(w.peerFd);
    w.peerFd = -1;
  }
  if (w.raw->start().isErr())
    mc_violation("definite-result", "restart-failed", "start() after stop() failed");
  std::thread b([&]() { runOp(w, udp ? OP_STATS : OP_CONNECT, "B"); });
  mc_quiesce();
  int p2 = udp ? -1 : ::accept4(w.lfd, nullptr, nullptr, SOCK_NONBLOCK);
  b.join();
  mc_quiesce();
  w.raw->stop();
  w.stopReturnedStep = mc_step();
  if (p2 >= 0)
    ::close(p2);
  afterChecks(w);
  finish(w);
  unwatch(w, implPtr, engPtr);
  w.t.reset();
  if (simk_open_fds() != 0)
    mc_violation("harness-internal", "fd-leak", std::to_string(simk_open_fds()) + " simulated descriptors left open");
}

// stop() has RETURNED; only then a thread parks in receiveSync with a long timeout (on the closed session: tombstone, must
// fail at once; on an identifier the transport has never issued: parks), and then the last owner is dropped.  Nothing
// will ever close that identifier, so only the teardown itself can release the caller: it must do so within a bound
// that does not depend on the receive timeout (30 s here; bound 2 s of virtual time plus the time T deviations add).
void stopParkDrop(bool udp, bool unknownSid)
{
  mc_label("main:setup");
  World w;
  setup(w, udp, true);
  w.raw->setReadMode(w.sid, ReadMode::Sync);
  void *implPtr = w.raw->_impl.get();
  void *engPtr = w.raw->_impl->engine.get();
  w.raw->stop();
  mc_obs("stop returned");
  uint64_t recvReturned = 0;
  int code = -1;
  SessionId target = unknownSid ? SessionId(4242) : w.sid;
  std::thread rd(
    [&]()
    {
      mc_label("A:receiveSync-after-stop");
      char b[8];
      size_t n = sizeof b;
      auto r = w.raw->receiveSync(target, b, n, std::chrono::milliseconds(30000));
      recvReturned = mc_now_ns();
      code = r.isOk() ? 0 : int(r.error().code);
      if (r.isErr() && !definite(r.error().code))
        mc_violation("definite-result", "receiveSync-code:" + std::to_string(code), "receiveSync returned error code " + std::to_string(code));
      mc_label("A:done");
    });
  mc_quiesce(); // the reader is parked (or has already failed cleanly)
  mc_label("main:teardown");
  uint64_t t0 = mc_now_ns(), d0 = mc_deviation_ns();
  unwatch(w, implPtr, engPtr);
  w.t.reset();
  uint64_t t1 = mc_now_ns();
  w.stopReturnedStep = mc_step();
  mc_obs("destroyed");
  rd.join();
  uint64_t slack = mc_deviation_ns() - d0;
  const uint64_t bound = 2000000000ull;
  if (t1 - t0 > bound + slack)
    mc_violation("bounded-time", "destruction-stranded-behind-parked-receiveSync", "destroying an already stopped transport took " + std::to_string((t1 - t0) / 1000000) + " ms of virtual time while a receiveSync (timeout 30 s) was parked");
  if (recvReturned > t0 && recvReturned - t0 > bound + slack)
    mc_violation("bounded-time", "parked-receiveSync-not-released-by-teardown", "a receiveSync parked after stop() returned only " + std::to_string((recvReturned - t0) / 1000000) + " ms after the teardown began (its own timeout: 30 s), code " + std::to_string(code));
  mc_obs("receiveSync=%d", code);
  mc_quiesce();
  finish(w);
}

const Scn SCN[] = {
  {"tcp_stop_vs_receiveSync", false, OP_RECEIVE_SYNC, OP_NONE, TD_STOP, 2, 3},
  {"tcp_drop_vs_receiveSync", false, OP_RECEIVE_SYNC, OP_NONE, TD_DROP, 2, 3},
  {"tcp_stop_vs_connectSync", false, OP_CONNECT_SYNC, OP_NONE, TD_STOP, 2, 3},
  {"tcp_drop_vs_connectSync", false, OP_CONNECT_SYNC, OP_NONE, TD_DROP, 2, 3},
  {"tcp_stop_vs_flush", false, OP_FLUSH, OP_NONE, TD_STOP, 2, 3},
  {"tcp_drop_vs_flush", false, OP_FLUSH, OP_NONE, TD_DROP, 2, 3},
  {"tcp_stop_then_drop_vs_flush", false, OP_FLUSH, OP_NONE, TD_STOP_DROP, 2, 3},
  {"tcp_stop_then_drop_vs_receiveSync", false, OP_RECEIVE_SYNC, OP_NONE, TD_STOP_DROP, 1, 2},
  {"tcp_stop_then_drop_vs_connectSync", false, OP_CONNECT_SYNC, OP_NONE, TD_STOP_DROP, 1, 2},
  {"tcp_stop_vs_send_close_connect", false, OP_SEND_CLOSE, OP_CONNECT, TD_STOP, 1, 2},
  {"tcp_stop_vs_addListener", false, OP_ADD_LISTENER, OP_NONE, TD_STOP, 2, 3},
  {"tcp_addListener_started_then_stop", false, OP_ADD_LISTENER, OP_NONE, TD_STOP, 2, 3, true},
  {"tcp_connect_send_started_then_stop", false, OP_SEND_CLOSE, OP_CONNECT, TD_STOP, 2, 2, true},
  {"udp_addListener_started_then_stop", true, OP_ADD_LISTENER, OP_NONE, TD_STOP, 2, 3, true},
  {"tcp_stop_vs_stats_receive", false, OP_STATS, OP_RECEIVE_SYNC, TD_STOP, 1, 2},
  {"tcp_stop_twice_vs_connect", false, OP_CONNECT, OP_NONE, TD_STOP_TWICE, 2, 3},
  {"udp_stop_vs_send_close_connect", true, OP_SEND_CLOSE, OP_CONNECT, TD_STOP, 1, 2},
  {"udp_stop_vs_addListener", true, OP_ADD_LISTENER, OP_STATS, TD_STOP, 1, 2},
};
} // namespace

int main(int argc, char **argv)
{
  iora::core::Logger::setLevel(iora::core::Logger::Level::Fatal);
  std::vector<McScenario> v;
  auto bounds = [](McScenario &m, int qP, int tP)
  {
    m.quick.P = qP;
    m.quick.S = 1;
    m.quick.T = 1;
    m.quick.total = std::max(2, qP);
    m.thorough.P = tP;
    m.thorough.S = 2;
    m.thorough.T = 1;
    m.thorough.total = std::max(3, tP);
    m.horizon_s = 60;
  };
  for (const Scn &s : SCN)
  {
    McScenario m;
    m.name = s.name;
    m.body = [s]() { runGeneric(s); };
    bounds(m, s.qP, s.tP);
    v.push_back(m);
  }
  for (int k = 0; k < 3; ++k)
  {
    bool udp = k == 2, unknown = k != 1;
    McScenario m;
    m.name = std::string(udp ? "udp" : "tcp") + "_stop_park_" + (unknown ? "unknown_id" : "closed_id") + "_then_drop";
    m.body = [udp, unknown]() { stopParkDrop(udp, unknown); };
    bounds(m, 1, 2);
    v.push_back(m);
  }
  for (int udp = 0; udp < 2; ++udp)
  {
    McScenario m;
    m.name = udp ? "udp_stop_in_callback" : "tcp_stop_in_callback";
    m.body = [udp]() { stopInCallback(udp != 0); };
    bounds(m, 1, 2);
    v.push_back(m);
  }
  for (int k = 0; k < 4; ++k)
  {
    bool udp = k >= 2, inData = k % 2;
    McScenario m;
    m.name = std::string(udp ? "udp" : "tcp") + (inData ? "_release_in_onData" : "_release_in_onClose");
    m.body = [udp, inData]() { releaseInCallback(udp, inData); };
    bounds(m, 2, 3);
    v.push_back(m);
  }
  for (int udp = 0; udp < 2; ++udp)
  {
    McScenario m;
    m.name = udp ? "udp_restart_cycle" : "tcp_restart_cycle";
    m.body = [udp]() { restartCycle(udp != 0); };
    bounds(m, 1, 2);
    v.push_back(m);
  }
#ifdef MC_TSAN
  return mc_main(argc, argv, "C05_teardown_T", v);
#else
  return mc_main(argc, argv, "C05_teardown_A", v);
#endif
}

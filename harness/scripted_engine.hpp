// Scripted EngineBase used under the REAL iora::network::Transport (through the repository's own
// test seam TransportEngineInjector::withEngine).  It mirrors the command-queue shape of the real
// engines: application-facing calls only enqueue a command; one "I/O thread" (a scheduler thread)
// dequeues commands and harness-injected events in FIFO order and invokes the Transport's engine
// callbacks.  Everything the I/O thread does is therefore interleaved with application threads by
// the model checker exactly like a real engine thread would be.
#pragma once
#include "mc.h"
#include <iora/network/detail/engine_base.hpp>
#include <iora/network/transport.hpp>
#include <iora/network/transport_impl.hpp>
#include <network/transport_test_seam.hpp>

#include <condition_variable>
#include <deque>
#include <map>
#include <mutex>
#include <set>
#include <thread>

namespace vh
{
using namespace iora::network;

enum class ConnectPolicy
{
  Complete,          // onConnect as soon as the command is processed
  Refuse,            // onClose(refused) as soon as the command is processed
  BlackHole,         // nothing until a Close command / shutdown
  CompleteAfter,     // onConnect after `delayMs` of virtual time (unless closed first)
  CompleteThenClose, // onConnect, then peer reset -> onClose
  RefuseAfter,       // onClose(refused) after delayMs
};

struct Event
{
  enum Kind
  {
    CmdConnect,
    CmdClose,
    CmdShutdown,
    InjAccept,
    InjData,
    InjClose,
    Timer,
  } kind;
  SessionId sid{0};
  std::string bytes;
  uint64_t at{0}; // Timer: virtual due time
  int timerAction{0};
};

class ScriptedEngine : public detail::EngineBase
{
public:
  // configuration
  std::vector<ConnectPolicy> connectPolicies; // k-th connect uses policy k (last repeats)
  int delayMs = 50;
  // observation
  std::map<SessionId, int> state;              // 1 connecting, 2 open, 3 closed
  std::map<SessionId, int> closeIssued;        // engine->close(sid) calls seen
  std::map<SessionId, int> onConnectDelivered; // engine-level onConnect callbacks fired
  std::map<SessionId, int> onCloseDelivered;
  std::map<SessionId, std::string> sent;
  std::function<void(const Event &)> beforeDeliver; // harness hook, runs on the I/O thread right before a callback
  std::function<void()> afterEvent;                 // harness hook, runs on the I/O thread after an event was fully processed
  int connectCount = 0;

  ~ScriptedEngine() override { stop(); }

  StartResult start() override
  {
    bool exp = false;
    if (!_running.compare_exchange_strong(exp, true))
      return StartResult::err(TransportErrorInfo{TransportError::Config, "already running"});
    {
      std::lock_guard<std::mutex> g(_m);
      _closedQ = false;
    }
    _loop = std::thread(
      [this]
      {
        mc_label("io:loop");
        loop();
        std::function<void()> sd;
        sd.swap(_selfDestruct);
        if (sd)
          sd();
      });
    return StartResult::ok();
  }
  void stop() override
  {
    bool exp = true;
    if (!_running.compare_exchange_strong(exp, false))
      return;
    enqueue(Event{Event::CmdShutdown});
    if (_loop.joinable())
      _loop.join();
  }
  bool isRunning() const override { return _running.load(std::memory_order_acquire); }
  TransportErrorInfo lastError() const override { return TransportErrorInfo{}; }
  ListenResult addListener(const std::string &, std::uint16_t, TlsMode) override { return ListenResult::ok(ListenerId(1)); }
  ConnectResult connect(const std::string &, std::uint16_t, TlsMode) override
  {
    SessionId sid = _nextSid++;
    Event e{Event::CmdConnect};
    e.sid = sid;
    if (!enqueue(e))
      return ConnectResult::err(TransportErrorInfo{TransportError::ShuttingDown, "connect: shutting down"});
    return ConnectResult::ok(sid);
  }
  ConnectResult connectViaListener(ListenerId, const std::string &h, std::uint16_t p) override { return connect(h, p, TlsMode::None); }
  bool close(SessionId sid) override
  {
    {
      std::lock_guard<std::mutex> g(_m);
      closeIssued[sid]++;
    }
    Event e{Event::CmdClose};
    e.sid = sid;
    return enqueue(e);
  }
  bool send(SessionId sid, const void *d, std::size_t n) override
  {
    std::lock_guard<std::mutex> g(_m);
    if (_closedQ)
      return false;
    sent[sid].append((const char *)d, n);
    return true;
  }
  void sendAsync(SessionId sid, const void *d, std::size_t n, SendCompleteCallback cb) override
  {
    bool ok = send(sid, d, n);
    (void)ok;
    (void)cb;
  }
  void setCallbacks(Callbacks cbs) override { _cbs = std::move(cbs); }
  TransportStats getStats() const override { return TransportStats{}; }
  TransportAddress getListenerAddress(ListenerId) const override { return TransportAddress{}; }
  TransportAddress getLocalAddress(SessionId) const override { return TransportAddress{}; }
  TransportAddress getRemoteAddress(SessionId) const override { return TransportAddress{}; }
  bool setDscp(SessionId, std::uint8_t) override { return true; }
  std::thread::id getIoThreadId() const override { return _loop.get_id(); }
  void detachForTermination() override
  {
    _running.store(false, std::memory_order_release);
    {
      std::lock_guard<std::mutex> g(_m);
      _detached = true;
    }
    _cv.notify_all();
    if (_loop.joinable())
      _loop.detach();
  }
  void scheduleSelfDestruct(std::function<void()> d) override { _selfDestruct = std::move(d); }

  // ---- harness side: inject peer-originated events ----
  bool inject(Event e) { return enqueue(std::move(e)); }
  bool injectData(SessionId sid, const std::string &b)
  {
    Event e{Event::InjData};
    e.sid = sid;
    e.bytes = b;
    return enqueue(e);
  }
  bool injectClose(SessionId sid)
  {
    Event e{Event::InjClose};
    e.sid = sid;
    return enqueue(e);
  }
  bool injectAccept(SessionId sid)
  {
    Event e{Event::InjAccept};
    e.sid = sid;
    return enqueue(e);
  }
  SessionId allocSid() { return _nextSid++; }
  size_t openSessions()
  {
    std::lock_guard<std::mutex> g(_m);
    size_t n = 0;
    for (auto &kv : state)
      if (kv.second == 1 || kv.second == 2)
        ++n;
    return n;
  }

private:
  bool enqueue(Event e)
  {
    {
      std::lock_guard<std::mutex> g(_m);
      if (_closedQ)
        return false;
      _q.push_back(std::move(e));
    }
    _cv.notify_one();
    return true;
  }
  void fireClose(SessionId sid, TransportError code, const char *msg)
  {
    int &st = state[sid];
    if (st == 3 || st == 0)
      return;
    st = 3;
    onCloseDelivered[sid]++;
    if (_cbs.onClose)
      _cbs.onClose(sid, TransportErrorInfo{code, msg});
  }
  void loop()
  {
    for (;;)
    {
      Event e;
      {
        std::unique_lock<std::mutex> lk(_m);
        for (;;)
        {
          if (_detached)
            return;
          if (!_q.empty())
          {
            e = std::move(_q.front());
            _q.pop_front();
            break;
          }
          if (!_timers.empty())
          {
            uint64_t now = mc_now_ns();
            auto it = _timers.begin();
            if (it->first <= now)
            {
              e = it->second;
              _timers.erase(it);
              break;
            }
            _cv.wait_for(lk, std::chrono::nanoseconds(it->first - now));
          }
          else
            _cv.wait(lk);
        }
      }
      if (beforeDeliver)
        beforeDeliver(e);
      switch (e.kind)
      {
      case Event::CmdConnect:
      {
        ConnectPolicy p = connectPolicies.empty() ? ConnectPolicy::Complete
                                                  : connectPolicies[std::min(size_t(connectCount), connectPolicies.size() - 1)];
        connectCount++;
        state[e.sid] = 1;
        if (p == ConnectPolicy::Complete || p == ConnectPolicy::CompleteThenClose)
        {
          state[e.sid] = 2;
          onConnectDelivered[e.sid]++;
          if (_cbs.onConnect)
            _cbs.onConnect(e.sid, TransportAddress{});
          if (_detached)
            return;
          if (p == ConnectPolicy::CompleteThenClose)
            fireClose(e.sid, TransportError::PeerClosed, "peer reset");
        }
        else if (p == ConnectPolicy::Refuse)
          fireClose(e.sid, TransportError::Socket, "connection refused");
        else if (p == ConnectPolicy::CompleteAfter || p == ConnectPolicy::RefuseAfter)
        {
          Event t{Event::Timer};
          t.sid = e.sid;
          t.timerAction = p == ConnectPolicy::CompleteAfter ? 1 : 2;
          std::lock_guard<std::mutex> g(_m);
          _timers.emplace(mc_now_ns() + uint64_t(delayMs) * 1000000ull, t);
        }
        break;
      }
      case Event::Timer:
        if (state[e.sid] == 1)
        {
          if (e.timerAction == 1)
          {
            state[e.sid] = 2;
            onConnectDelivered[e.sid]++;
            if (_cbs.onConnect)
              _cbs.onConnect(e.sid, TransportAddress{});
          }
          else
            fireClose(e.sid, TransportError::Socket, "connection refused");
        }
        break;
      case Event::CmdClose:
        fireClose(e.sid, TransportError::None, "closed by application");
        break;
      case Event::InjAccept:
        state[e.sid] = 2;
        if (_cbs.onAccept)
          _cbs.onAccept(e.sid, TransportAddress{});
        break;
      case Event::InjData:
        if (state[e.sid] == 2 && _cbs.onData)
          _cbs.onData(e.sid, iora::core::BufferView{(const std::uint8_t *)e.bytes.data(), e.bytes.size()}, std::chrono::steady_clock::now());
        break;
      case Event::InjClose:
        fireClose(e.sid, TransportError::PeerClosed, "peer closed");
        break;
      case Event::CmdShutdown:
      {
        // shutdownDrain: close every remaining session once, refuse later commands, exit
        std::vector<SessionId> open;
        for (auto &kv : state)
          if (kv.second == 1 || kv.second == 2)
            open.push_back(kv.first);
        for (SessionId s : open)
        {
          fireClose(s, TransportError::ShuttingDown, "engine stopped");
          if (_detached)
            return;
        }
        if (afterEvent)
          afterEvent();
        std::lock_guard<std::mutex> g(_m);
        _closedQ = true;
        _q.clear();
        _timers.clear();
        return;
      }
      }
      if (_detached)
        return;
      if (afterEvent)
        afterEvent();
    }
  }

  std::atomic<bool> _running{false};
  std::thread _loop;
  std::mutex _m;
  std::condition_variable _cv;
  std::deque<Event> _q;
  std::multimap<uint64_t, Event> _timers;
  bool _closedQ = false;
  bool _detached = false;
  std::atomic<SessionId> _nextSid{1};
  Callbacks _cbs;
  std::function<void()> _selfDestruct;
};

} // namespace vh

// C01: TCP sessions deliver sent bytes exactly once and in order (plain TCP part).
//
// Real code under test: iora::network::Transport::tcp() with its real TcpEngine (I/O thread, command
// queue, epoll loop, doSend / writePending / readAvail / updateInterest).  Every descriptor the
// engine uses is an rt/simk object: stream sockets with a receive buffer of 2-4 bytes, so a 5-byte
// payload already spans "several socket buffers"; every send()/recv() the engine issues may return
// any admissible short count (environment deviation E); EAGAIN arises from full/empty buffers; the
// peer is a raw simulated socket driven by the harness, which drains / writes at every possible
// position relative to the engine's steps (thread interleavings within the bounds).
//
// Oracle clauses:
//   outbound-stream   bytes read by the peer == concatenation of the accepted payloads, each contiguous and
//                     exactly once, in an order consistent with returns-before-calls of the send() invocations
//   outbound-prefix   if the session ended early the peer holds a prefix of such a concatenation and the close
//                     was reported
//   no-silent-stall   while the session is open and the peer keeps reading, every accepted byte arrives
//                     (bytes left queued forever with the session open = a missed re-arm)
//   inbound-stream    bytes handed to the data callback == bytes the peer wrote, in order, exactly once
#include "mc.h"
#include "simk.h"
#include <iora/network/transport.hpp>
#include <iora/network/transport_impl.hpp>

#include <arpa/inet.h>
#include <netinet/in.h>
#include <sys/socket.h>
#include <unistd.h>

#include <sstream>
#include <thread>

using namespace iora::network;

namespace
{
struct Scn
{
  const char *name;
  bool serverSide;              // session under test is an accepted (server-side) session, else a connected one
  bool edge;                    // useEdgeTriggered
  bool batching;
  int rcvbuf;                   // simulated socket buffer
  std::vector<std::vector<int>> senders; // per sender thread: payload sizes
  std::vector<int> peerWrites;  // sizes the peer writes towards the engine (inbound direction)
  int peerMode;                 // 0 peer drains concurrently, 1 peer drains only after the senders finished (forces queueing),
                                // 2 peer reads at most one byte and then closes (FIN, or RST if unread data remains)
  int qP, qE, tP, tE;
  int maxWq = 64;               // maxWriteQueue (1 => close-on-backpressure reachable)
  bool early = false;           // client side: senders start right after connect() returned, before the announce
};

struct World
{
  std::shared_ptr<Transport> t;
  SessionId sid = 0;
  bool connected = false;
  bool closed = false;
  std::string inbound; // data callback
  int peerFd = -1;
  int listenFd = -1;
};

int rawSocket()
{
  return ::socket(AF_INET, SOCK_STREAM | SOCK_NONBLOCK, 0);
}
sockaddr_in addr(const char *ip, uint16_t port)
{
  sockaddr_in a{};
  a.sin_family = AF_INET;
  a.sin_port = htons(port);
  inet_pton(AF_INET, ip, &a.sin_addr);
  return a;
}

void run(const Scn &sc)
{
  mc_label("main:setup");
  simk_cfg.tcpRcvBuf = sc.rcvbuf;
  simk_cfg.shortIo = true;
  World w;
  TransportConfig cfg;
  cfg.useEdgeTriggered = sc.edge;
  cfg.batching.enabled = sc.batching;
  cfg.enableHighResolutionTimers = false; // the timer service thread is C08's business
  cfg.ioReadChunk = 8;
  cfg.maxWriteQueue = size_t(sc.maxWq);
  w.t = Transport::tcp(cfg);
  w.t->onAccept([&](SessionId s, const TransportAddress &) { w.sid = s; w.connected = true; mc_obs("accept %llu", (unsigned long long)s); });
  w.t->onConnect([&](SessionId s, const TransportAddress &) { w.sid = s; w.connected = true; mc_obs("connect %llu", (unsigned long long)s); });
  w.t->onData([&](SessionId, iora::core::BufferView d, std::chrono::steady_clock::time_point) { w.inbound.append((const char *)d.data(), d.size()); });
  w.t->onClose([&](SessionId s, const TransportErrorInfo &e) { w.closed = true; mc_obs("close %llu code=%d", (unsigned long long)s, int(e.code)); });

  if (sc.serverSide)
  {
    if (w.t->start().isErr())
      mc_violation("harness-internal", "start", "start failed");
    auto lr = w.t->addListener("127.0.0.1", 9000, TlsMode::None); // synchronous once running (as the repository tests use it)
    if (lr.isErr())
      mc_violation("harness-internal", "listener", "addListener failed");
    mc_quiesce();
    w.peerFd = rawSocket();
    sockaddr_in a = addr("127.0.0.1", 9000);
    ::connect(w.peerFd, (sockaddr *)&a, sizeof a);
  }
  else
  {
    // peer is a raw listening socket of the harness
    w.listenFd = rawSocket();
    sockaddr_in a = addr("127.0.0.1", 9100);
    ::bind(w.listenFd, (sockaddr *)&a, sizeof a);
    ::listen(w.listenFd, 8);
    if (w.t->start().isErr())
      mc_violation("harness-internal", "start", "start failed");
    auto cr = w.t->connect("127.0.0.1", 9100, TlsMode::None);
    if (cr.isErr())
      mc_violation("harness-internal", "connect", "connect failed");
    w.sid = cr.value();
  }
  if (!sc.early)
    mc_quiesce();
  if (!sc.serverSide && !sc.early)
  {
    w.peerFd = ::accept4(w.listenFd, nullptr, nullptr, SOCK_NONBLOCK);
    if (w.peerFd < 0)
      mc_violation("harness-internal", "accept", "peer could not accept");
    mc_quiesce();
  }
  if (!w.connected && !sc.early)
    mc_violation("harness-internal", "not-connected", "session was not announced");
  if (!sc.early)
  {
    auto *eng = dynamic_cast<TcpEngine *>(w.t->_impl->engine.get());
    mc_obs("engine edge=%d batching=%d", int(eng->_config.useEdgeTriggered), int(eng->_batchProcessor != nullptr));
    if ((eng->_batchProcessor != nullptr) != sc.batching || eng->_config.useEdgeTriggered != sc.edge)
      mc_violation("harness-internal", "config-not-applied", "engine configuration differs from the scenario");
  }
  if (w.peerFd >= 0)
    simk_set_rcvbuf(w.peerFd, sc.rcvbuf);

  // ---- senders ----
  struct SendRec
  {
    std::string payload;
    bool accepted;
    uint64_t callStep, retStep;
  };
  std::vector<std::vector<SendRec>> recs(sc.senders.size());
  std::vector<std::thread> th;
  for (size_t si = 0; si < sc.senders.size(); ++si)
    th.emplace_back(
      [&, si]()
      {
        std::string who = "S" + std::to_string(si + 1);
        int k = 0;
        for (int n : sc.senders[si])
        {
          mc_label((who + ":send").c_str());
          std::string p;
          for (int i = 0; i < n; ++i)
            p.push_back(char((si == 0 ? 'a' : 'A') + (k * 7 + i) % 26)); // distinct bytes per send
          ++k;
          SendRec r;
          r.payload = p;
          r.callStep = mc_step();
          r.accepted = w.t->send(w.sid, iora::core::BufferView{(const uint8_t *)p.data(), p.size()});
          r.retStep = mc_step();
          recs[si].push_back(r);
          mc_obs("%s send(%s)=%d", who.c_str(), p.c_str(), int(r.accepted));
        }
        mc_label((who + ":done").c_str());
      });
  // ---- peer ----
  std::string peerGot;
  std::string peerWrote;
  bool peerSawEof = false;
  bool peerClosed = false;
  auto peerDrain = [&]()
  {
    if (peerClosed || w.peerFd < 0)
      return;
    char b[16];
    for (;;)
    {
      ssize_t r = ::recv(w.peerFd, b, sizeof b, 0);
      if (r > 0)
        peerGot.append(b, size_t(r));
      else
      {
        if (r == 0)
          peerSawEof = true;
        break;
      }
    }
  };
  std::thread peer(
    [&]()
    {
      mc_label("peer");
      if (sc.early)
      {
        for (int i = 0; i < 20 && w.peerFd < 0; ++i)
        {
          w.peerFd = ::accept4(w.listenFd, nullptr, nullptr, SOCK_NONBLOCK);
          if (w.peerFd < 0)
            mc_quiesce();
        }
        if (w.peerFd < 0)
          mc_violation("harness-internal", "accept", "peer could not accept");
        simk_set_rcvbuf(w.peerFd, sc.rcvbuf);
      }
      int wk = 0;
      for (int n : sc.peerWrites)
      {
        std::string p;
        for (int i = 0; i < n; ++i)
          p.push_back(char('0' + (wk * 3 + i) % 10));
        ++wk;
        size_t off = 0;
        int guard = 0;
        while (off < p.size() && guard++ < 50)
        {
          ssize_t r = ::send(w.peerFd, p.data() + off, p.size() - off, 0);
          if (r > 0)
          {
            peerWrote.append(p.data() + off, size_t(r));
            off += size_t(r);
          }
          else
            mc_quiesce(); // engine must drain before the peer can continue
        }
      }
      if (sc.peerMode == 0)
      {
        for (int i = 0; i < 4; ++i)
        {
          peerDrain();
          mc_yield_point("peer-drain");
        }
      }
      else if (sc.peerMode == 2)
      {
        char b[1];
        mc_yield_point("peer-read1");
        ssize_t r = ::recv(w.peerFd, b, 1, 0);
        if (r > 0)
          peerGot.append(b, size_t(r));
        mc_yield_point("peer-close");
        ::close(w.peerFd);
        peerClosed = true;
      }
      mc_label("peer:done");
    });
  mc_label("main:join");
  for (auto &x : th)
    x.join();
  peer.join();
  // ---- settle: the peer keeps reading until nothing moves any more ----
  for (int round = 0; round < 40; ++round)
  {
    size_t before = peerGot.size();
    mc_quiesce();
    peerDrain();
    mc_quiesce();
    if (peerGot.size() == before && round > 1)
      break;
  }
  mc_label("main:check");
  if (peerClosed && !w.closed)
    mc_violation("outbound-prefix", "peer-closed-but-session-not-reported-closed", "the peer closed the connection, the transport never reported the session closed");
  // ---- oracle: outbound ----
  std::vector<const SendRec *> acc;
  for (auto &v : recs)
    for (auto &r : v)
      if (r.accepted)
        acc.push_back(&r);
  // search an ordering of accepted sends, consistent with returns-before-calls, whose concatenation peerGot is
  // (a prefix of, if the session closed)
  std::vector<int> order;
  std::vector<bool> used(acc.size(), false);
  bool found = false;
  bool needFull = !w.closed;
  std::function<void(size_t)> rec = [&](size_t pos)
  {
    if (found)
      return;
    if (pos == peerGot.size())
    {
      bool all = true;
      for (bool u : used)
        all = all && u;
      if (all || !needFull)
        found = true;
      return;
    }
    for (size_t i = 0; i < acc.size(); ++i)
    {
      if (used[i])
        continue;
      // happens-before: every send that returned before acc[i] was called must already be used
      bool ok = true;
      for (size_t j = 0; j < acc.size(); ++j)
        if (!used[j] && j != i && acc[j]->retStep < acc[i]->callStep)
          ok = false;
      if (!ok)
        continue;
      const std::string &p = acc[i]->payload;
      size_t rem = peerGot.size() - pos;
      size_t n = p.size() < rem ? p.size() : rem;
      if (peerGot.compare(pos, n, p, 0, n) != 0)
        continue;
      if (n < p.size() && needFull)
        continue; // partial payload only allowed as the tail of an early-ended session
      used[i] = true;
      if (n < p.size())
      {
        if (pos + n == peerGot.size())
          found = true;
      }
      else
        rec(pos + n);
      used[i] = false;
      if (found)
        return;
    }
  };
  rec(0);
  std::ostringstream all;
  for (auto *r : acc)
    all << r->payload << "|";
  mc_obs("peerGot=%s closed=%d inbound=%s", peerGot.c_str(), int(w.closed), w.inbound.c_str());
  if (!found)
  {
    size_t total = 0;
    for (auto *r : acc)
      total += r->payload.size();
    const char *sig = w.closed ? "not-a-prefix-after-close" : (peerGot.size() < total ? "bytes-missing-session-open" : peerGot.size() > total ? "bytes-duplicated" : "reordered-or-interleaved");
    mc_violation(w.closed ? "outbound-prefix" : (peerGot.size() < total ? "no-silent-stall" : "outbound-stream"), sig,
                 "accepted payloads {" + all.str() + "} peer received '" + peerGot + "' session " + (w.closed ? "closed" : "open"));
  }
  // ---- oracle: inbound ----
  if (!w.closed && w.inbound != peerWrote)
    mc_violation("inbound-stream", w.inbound.size() < peerWrote.size() ? "bytes-missing" : "mismatch", "peer wrote '" + peerWrote + "' data callback got '" + w.inbound + "'");
  if (w.closed && peerWrote.compare(0, w.inbound.size(), w.inbound) != 0)
    mc_violation("inbound-stream", "not-a-prefix-after-close", "peer wrote '" + peerWrote + "' data callback got '" + w.inbound + "'");
  if (!peerClosed && w.peerFd >= 0)
    ::close(w.peerFd);
  if (w.listenFd >= 0)
    ::close(w.listenFd);
  mc_quiesce();
  w.t->stop();
  w.t.reset();
  if (simk_open_fds() != 0)
    mc_violation("harness-internal", "fd-leak", std::to_string(simk_open_fds()) + " simulated descriptors left open after stop");
}

const Scn SCN[] = {
  // name            server edge batch buf senders            peerWrites mode qP qE tP tE
  {"srv_et_one5", true, true, false, 2, {{5}}, {}, 0, 1, 2, 2, 3},
  {"srv_et_two_sends", true, true, false, 2, {{3, 2}}, {}, 1, 1, 2, 2, 3},
  {"srv_lt_one5", true, false, false, 2, {{5}}, {}, 0, 1, 2, 2, 3},
  {"cli_et_two_sends", false, true, false, 3, {{2, 3}}, {}, 1, 1, 2, 2, 3},
  {"srv_et_two_threads", true, true, false, 2, {{3}, {2}}, {}, 0, 1, 1, 2, 2},
  {"srv_et_queue_then_drain", true, true, false, 2, {{5, 1, 2}}, {}, 1, 1, 2, 1, 3},
  {"srv_et_inbound", true, true, false, 3, {}, {5, 2}, 0, 1, 2, 2, 3},
  {"srv_lt_inbound", true, false, false, 3, {}, {5, 2}, 0, 1, 2, 2, 3},
  {"srv_et_bidir", true, true, false, 3, {{3}}, {3}, 0, 1, 1, 2, 2},
  {"srv_batch_one5", true, true, true, 2, {{5}}, {}, 0, 1, 2, 2, 3},
  {"srv_batch_inbound", true, true, true, 3, {{2}}, {5}, 0, 1, 1, 2, 2},
  {"srv_et_full_then_eagain", true, true, false, 2, {{2, 3}}, {}, 1, 1, 2, 2, 3},
  {"srv_lt_full_then_eagain", true, false, false, 2, {{2, 3}}, {}, 1, 1, 2, 2, 3},
  {"cli_send_before_connect", false, true, false, 2, {{3, 2}}, {}, 0, 1, 1, 2, 2, 64, true},
  {"srv_backpressure_close", true, true, false, 2, {{2, 2, 2, 2}}, {}, 1, 1, 1, 2, 2, 1},
  {"srv_peer_closes_early", true, true, false, 2, {{5, 2}}, {}, 2, 1, 1, 2, 2},
  {"srv_peer_closes_early_inbound", true, true, false, 3, {{3}}, {2}, 2, 1, 1, 2, 2},
};
} // namespace

int main(int argc, char **argv)
{
  iora::core::Logger::setLevel(iora::core::Logger::Level::Fatal);
  std::vector<McScenario> v;
  for (const Scn &s : SCN)
  {
    McScenario m;
    m.name = s.name;
    m.body = [s]() { run(s); };
    m.quick.P = s.qP;
    m.quick.E = s.qE;
    m.quick.S = 1;
    m.quick.T = 0;
    m.quick.total = std::max(2, s.qE);
    m.thorough.P = s.tP;
    m.thorough.E = s.tE;
    m.thorough.S = 2;
    m.thorough.T = 0;
    m.thorough.total = std::max(3, s.tE);
    m.horizon_s = 120;
    v.push_back(m);
  }
  return mc_main(argc, argv, "C01_tcp_stream", v);
}

// C07: TLS sessions authenticate the peer as configured and never downgrade.
//
// Real code under test: TcpEngine::initTls / doConnect / driveHandshake through Transport (client and
// server side) and through HttpClient (https URL), on the rt/simk kernel, against an INDEPENDENT OpenSSL
// endpoint (harness/tls_peer.hpp) or a plaintext / garbage speaker.  Certificates are minted by
// oracle/c07_mkcerts.cpp around the virtual wall clock; expiry is crossed by moving the virtual clock.
// Every cell of the configuration matrix is one execution (free choices); the expected verdict is
// computed from how the cell was built, never from OpenSSL.
//
// Oracle clauses (one-directional, as the statement is: refusal is always acceptable):
//   client-auth     connected announced / connectSync ok / HTTP response returned  =>  verify off, or the server
//                   certificate chains to the CONFIGURED anchor, is inside its validity and - for a host-name
//                   target - is issued for that name, and the server proved possession of its key
//   server-auth     a server that requires client certificates delivers peer data to the application only for a
//                   client that presented a certificate valid under the configured anchor
//   no-cleartext    the application marker bytes never appear in what iora's socket put on the wire
//   tls12-floor     whenever a session is announced / data admitted, the negotiated version is >= TLS 1.2
//   only-tls        a plaintext or garbage peer is never announced / its bytes never reach the application
#include "mc.h"
#include "simk.h"
#include "tls_peer.hpp"
#include <iora/network/http_client.hpp>
#include <iora/network/http_server.hpp>
#include <iora/network/transport.hpp>
#include <iora/network/transport_impl.hpp>

#include <sstream>
#include <thread>

using namespace iora::network;

namespace
{
std::string CERTS;
bool THOROUGH = false; // thorough tier: short reads/writes of both endpoints become environment deviations (E)
const char *MARKER = "APPDATA-MARKER-7f3a9c";
const char *PEERDATA = "PEER-APP-DATA-51c2";

std::string C(const char *f) { return CERTS + "/" + f; }

const char *SRV[] = {"srv_ok", "srv_self", "srv_wrongname", "srv_b", "srv_mismatch"};
const char *ANCHOR[] = {"ca_a", "ca_b", "none"};
const int VERS[] = {0, TLS1_VERSION, TLS1_1_VERSION, TLS1_2_VERSION, TLS1_3_VERSION};
const char *VERN[] = {"default", "tls1.0", "tls1.1", "tls1.2", "tls1.3"};

struct ClientCell
{
  int verify = 1, anchor = 0, srv = 0, host = 0, clock = 0, ver = 0, kind = 0, early = 0;
  int lax = 0; // iora side configured as permissively as its API allows: ciphers ALL:@SECLEVEL=0, minVersion TLS 1.0 (the floor must still hold)
};

bool clientAllowed(const ClientCell &c, std::string &why)
{
  if (c.kind != 0)
  {
    why = c.kind == 1 ? "plaintext-peer" : "garbage-peer";
    return false;
  }
  if (c.srv == 4)
  {
    why = "server-key-mismatch";
    return false;
  }
  if (c.ver == 1 || c.ver == 2)
  {
    why = std::string("peer-ceiling-") + VERN[c.ver];
    return false;
  }
  if (!c.verify)
    return true;
  bool chain = (c.anchor == 0 && (c.srv == 0 || c.srv == 2)) || ((c.anchor == 1 || c.anchor == 2) && c.srv == 3);
  if (!chain)
  {
    why = std::string("not-under-configured-anchor:") + ANCHOR[c.anchor] + ":" + SRV[c.srv];
    return false;
  }
  if (c.clock != 0)
  {
    why = c.clock == 1 ? "not-yet-valid" : "expired";
    return false;
  }
  if (c.host == 1 && c.srv == 2)
  {
    why = "wrong-name:host-target";
    return false;
  }
  return true;
}

std::string cellName(const ClientCell &c)
{
  std::ostringstream o;
  o << "verify=" << c.verify << " anchor=" << ANCHOR[c.anchor] << " srv=" << SRV[c.srv] << " target=" << (c.host ? "localhost" : "127.0.0.1") << " clock=" << (c.clock == 0 ? "inside" : c.clock == 1 ? "before" : "after")
    << " peermax=" << VERN[c.ver] << " kind=" << c.kind << " early=" << c.early << " lax=" << c.lax;
  return o.str();
}

void applyClock(int clock)
{
  if (clock == 1)
    mc_advance_wall(-3ll * 86400ll * 1000000000ll);
  else if (clock == 2)
    mc_advance_wall(20ll * 86400ll * 1000000000ll);
}

ClientCell chooseClientCell(bool thorough)
{
  ClientCell c;
  // family 0: verify x anchor x server cert x target        (60 cells)
  // family 1: variations of one dimension on the reference cell and on the "verify off" cell (clock, version, kind, early)
  // family 2 (thorough): full product with clock and version
  int fam = mc_choose(thorough ? 3 : 2, MC_FREE);
  if (fam == 0 || fam == 2)
  {
    c.verify = 1 - mc_choose(2, MC_FREE);
    c.anchor = mc_choose(3, MC_FREE);
    c.srv = mc_choose(5, MC_FREE);
    c.host = mc_choose(2, MC_FREE);
    if (fam == 2)
    {
      c.clock = mc_choose(3, MC_FREE);
      c.ver = mc_choose(5, MC_FREE);
      c.early = mc_choose(3, MC_FREE);
      c.lax = mc_choose(2, MC_FREE);
    }
  }
  else
  {
    c.verify = 1 - mc_choose(2, MC_FREE);
    int dim = mc_choose(4, MC_FREE);
    if (dim == 0)
      c.clock = 1 + mc_choose(2, MC_FREE);
    else if (dim == 1)
    {
      c.ver = 1 + mc_choose(4, MC_FREE);
      c.lax = mc_choose(2, MC_FREE);
    }
    else if (dim == 2)
      c.kind = 1 + mc_choose(2, MC_FREE);
    else
      c.early = 1 + mc_choose(2, MC_FREE);
  }
  return c;
}

// ---------------------------------------------------------------- iora client  <->  independent server
void clientSide(bool thorough)
{
  mc_label("main:client-side");
  simk_cfg.tcpRcvBuf = 65536;
  simk_cfg.shortIo = THOROUGH;
  ClientCell c = chooseClientCell(thorough);
  std::string name = cellName(c);
  applyClock(c.clock);
  tp::PeerConfig pc;
  pc.server = true;
  pc.cert = C((std::string(c.srv == 4 ? "srv_ok" : SRV[c.srv]) + ".pem").c_str());
  pc.key = C((std::string(SRV[c.srv]) + ".key").c_str());
  pc.maxVersion = VERS[c.ver];
  pc.kind = tp::PeerKind(c.kind);
  pc.toSend = PEERDATA;
  pc.holdHandshake = c.early == 2; // the peer sits on the ClientHello until the application has issued its send
  tp::Peer peer(pc);
  peer.start(9443);
  mc_quiesce();

  TransportConfig cfg;
  cfg.enableHighResolutionTimers = false;
  cfg.handshakeTimeout = std::chrono::milliseconds(500);
  cfg.connectTimeout = std::chrono::milliseconds(500);
  cfg.gcInterval = std::chrono::seconds(1);
  cfg.clientTls.enabled = true;
  cfg.clientTls.defaultMode = TlsMode::Client;
  cfg.clientTls.verifyPeer = c.verify != 0;
  if (c.anchor != 2)
    cfg.clientTls.caFile = C((std::string(ANCHOR[c.anchor]) + ".pem").c_str());
  if (c.lax)
  {
    cfg.clientTls.ciphers = "ALL:@SECLEVEL=0";
    cfg.clientTls.minVersion = TLS1_VERSION;
  }
  auto t = Transport::tcp(cfg);
  bool connected = false, closed = false;
  std::string inbound;
  SessionId sid = 0;
  t->onConnect([&](SessionId s, const TransportAddress &) { connected = true; sid = s; });
  t->onClose([&](SessionId, const TransportErrorInfo &) { closed = true; });
  t->onData([&](SessionId, iora::core::BufferView d, std::chrono::steady_clock::time_point) { inbound.append((const char *)d.data(), d.size()); });
  if (t->start().isErr())
  {
    mc_obs("%s -> transport did not start (refused configuration)", name.c_str());
    peer.stop();
    return;
  }
  auto r = t->connect(c.host ? "localhost" : "127.0.0.1", 9443, TlsMode::Client);
  if (r.isOk() && c.early == 1)
    t->send(r.value(), iora::core::BufferView{(const uint8_t *)MARKER, strlen(MARKER)});
  if (r.isOk() && c.early == 2)
  {
    mc_quiesce(); // TCP connection established, ClientHello on the wire, handshake in progress
    t->send(r.value(), iora::core::BufferView{(const uint8_t *)MARKER, strlen(MARKER)});
    mc_quiesce();
    peer.release();
  }
  mc_quiesce(300ull * 1000000ull);
  if (connected && !c.early && !closed)
    t->send(sid, iora::core::BufferView{(const uint8_t *)MARKER, strlen(MARKER)});
  mc_quiesce(300ull * 1000000ull);
  // ---- oracle ----
  std::string why;
  bool allowed = clientAllowed(c, why);
  int version = 0;
  std::string wire, peerApp;
  bool peerDone = false;
  if (!peer.conns.empty())
  {
    auto &pcn = peer.conns[0];
    version = pcn.version;
    peerDone = pcn.handshakeDone;
    peerApp = pcn.appIn;
    wire = pcn.wire();
  }
  mc_obs("%s -> connected=%d closed=%d peerHandshake=%d version=%x marker-at-peer=%d allowed=%d", name.c_str(), int(connected), int(closed), int(peerDone), version, int(peerApp.find(MARKER) != std::string::npos), int(allowed));
  if (connected && !allowed)
    mc_violation(c.kind ? "only-tls" : ((c.ver == 1 || c.ver == 2) ? "tls12-floor" : "client-auth"), "client:connected-despite:" + why, "connected was announced although it must not be: " + why + " (" + name + ")");
  if (!inbound.empty() && !allowed)
    mc_violation("client-auth", "client:data-delivered-despite:" + why, "peer data reached the application although the session must not be established: " + why + " (" + name + ")");
  if (wire.find(MARKER) != std::string::npos)
    mc_violation("no-cleartext", std::string("client:marker-in-clear:") + (c.early == 2 ? "send-during-handshake" : c.early ? "early-send" : "send-after-connect") + ":kind" + std::to_string(c.kind), "the application bytes appear in clear text on the wire (" + name + ")");
  if (connected && version && version < TLS1_2_VERSION)
    mc_violation("tls12-floor", "client:negotiated-below-tls12", "negotiated protocol version 0x" + std::to_string(version) + " (" + name + ")");
  t->stop();
  t.reset();
  peer.stop();
}

// ---------------------------------------------------------------- iora server  <->  independent client
struct ServerCell
{
  int require = 0, cli = 0, ver = 0, kind = 0, lax = 0;
  int noAnchor = 0; // client certificates required but NO trust anchor configured (the run's system store is CA-B)
};
const char *CLI[] = {"none", "cli_ok", "cli_b"};

void serverSide()
{
  mc_label("main:server-side");
  simk_cfg.tcpRcvBuf = 65536;
  simk_cfg.shortIo = THOROUGH;
  ServerCell c;
  c.require = mc_choose(2, MC_FREE);
  c.cli = mc_choose(3, MC_FREE);
  c.ver = mc_choose(5, MC_FREE);
  c.kind = mc_choose(3, MC_FREE);
  c.lax = (c.ver == 1 || c.ver == 2) ? mc_choose(2, MC_FREE) : 0;
  c.noAnchor = (c.require && c.ver == 0 && c.kind == 0) ? mc_choose(2, MC_FREE) : 0;
  std::ostringstream o;
  o << "require-client-cert=" << c.require << " client-cert=" << CLI[c.cli] << " peermax=" << VERN[c.ver] << " kind=" << c.kind << " lax=" << c.lax << " anchor=" << (c.noAnchor ? "none" : "ca_a");
  std::string name = o.str();
  TransportConfig cfg;
  cfg.enableHighResolutionTimers = false;
  cfg.handshakeTimeout = std::chrono::milliseconds(500);
  cfg.gcInterval = std::chrono::seconds(1);
  cfg.serverTls.enabled = true;
  cfg.serverTls.defaultMode = TlsMode::Server;
  cfg.serverTls.certFile = C("srv_ok.pem");
  cfg.serverTls.keyFile = C("srv_ok.key");
  if (c.require)
  {
    cfg.serverTls.verifyPeer = true;
    if (!c.noAnchor)
      cfg.serverTls.caFile = C("ca_a.pem");
  }
  if (c.lax)
  {
    cfg.serverTls.ciphers = "ALL:@SECLEVEL=0";
    cfg.serverTls.minVersion = TLS1_VERSION;
  }
  auto t = Transport::tcp(cfg);
  std::string inbound;
  SessionId sid = 0;
  t->onAccept([&](SessionId s, const TransportAddress &) { sid = s; t->send(s, iora::core::BufferView{(const uint8_t *)MARKER, strlen(MARKER)}); });
  t->onData([&](SessionId, iora::core::BufferView d, std::chrono::steady_clock::time_point) { inbound.append((const char *)d.data(), d.size()); });
  if (t->start().isErr())
  {
    if (c.noAnchor)
    {
      // refusing the configuration is the safest possible answer: nobody is admitted
      mc_obs("%s -> transport did not start (refused configuration)", name.c_str());
      return;
    }
    mc_violation("harness-internal", "server-start", "server transport did not start");
  }
  if (t->addListener("127.0.0.1", 9443, TlsMode::Server).isErr())
    mc_violation("harness-internal", "server-listen", "listener failed");
  tp::PeerConfig pc;
  pc.server = false;
  if (c.cli)
  {
    pc.cert = C((std::string(CLI[c.cli]) + ".pem").c_str());
    pc.key = C((std::string(CLI[c.cli]) + ".key").c_str());
  }
  pc.maxVersion = VERS[c.ver];
  pc.kind = tp::PeerKind(c.kind);
  pc.toSend = PEERDATA;
  tp::Peer peer(pc);
  peer.start(9443);
  peer.connectNow();
  mc_quiesce(300ull * 1000000ull);
  mc_quiesce(300ull * 1000000ull);
  // without a configured anchor no client certificate chains to a CONFIGURED trust anchor: nobody may be admitted
  bool admitAllowed = c.kind == 0 && !(c.ver == 1 || c.ver == 2) && (!c.require || (c.cli == 1 && !c.noAnchor));
  std::string why = c.kind ? (c.kind == 1 ? "plaintext-peer" : "garbage-peer") : (c.ver == 1 || c.ver == 2) ? std::string("peer-ceiling-") + VERN[c.ver] : std::string("client-cert-") + CLI[c.cli] + (c.noAnchor ? ":no-anchor-configured" : "");
  int version = peer.conns.empty() ? 0 : peer.conns[0].version;
  std::string wire = peer.conns.empty() ? "" : peer.conns[0].wire();
  mc_obs("%s -> inbound=%zu peerHandshake=%d version=%x admitAllowed=%d", name.c_str(), inbound.size(), int(!peer.conns.empty() && peer.conns[0].handshakeDone), version, int(admitAllowed));
  if (!inbound.empty() && !admitAllowed)
    mc_violation(c.kind ? "only-tls" : ((c.ver == 1 || c.ver == 2) ? "tls12-floor" : "server-auth"), "server:data-admitted-despite:" + why, "peer bytes reached the application although they must not: " + why + " (" + name + ")");
  if (wire.find(MARKER) != std::string::npos)
    mc_violation("no-cleartext", "server:marker-in-clear:kind" + std::to_string(c.kind), "the server's application bytes appear in clear text on the wire (" + name + ")");
  if (!inbound.empty() && version && version < TLS1_2_VERSION)
    mc_violation("tls12-floor", "server:negotiated-below-tls12", "negotiated version 0x" + std::to_string(version) + " (" + name + ")");
  peer.stop();
  t->stop();
  t.reset();
}

// ---------------------------------------------------------------- HttpClient (https URL)  <->  independent server
void httpClientSide()
{
  mc_label("main:http-client");
  simk_cfg.tcpRcvBuf = 65536;
  simk_cfg.shortIo = THOROUGH;
  mc_set_sleep_quantum(1000000000ull);
  ClientCell c;
  c.verify = 1 - mc_choose(2, MC_FREE);
  c.anchor = mc_choose(3, MC_FREE); // caFile = CA-A | CA-B | none (default store = SSL_CERT_FILE = CA-B)
  c.srv = mc_choose(4, MC_FREE);
  c.host = mc_choose(2, MC_FREE);
  std::string name = "http-client " + cellName(c);
  tp::PeerConfig pc;
  pc.server = true;
  pc.cert = C((std::string(SRV[c.srv]) + ".pem").c_str());
  pc.key = C((std::string(SRV[c.srv]) + ".key").c_str());
  pc.toSend = "HTTP/1.1 200 OK\r\nContent-Length: 2\r\nConnection: close\r\n\r\nhi";
  tp::Peer peer(pc);
  peer.start(9443);
  mc_quiesce();
  HttpClient::Config hc;
  hc.connectTimeout = std::chrono::milliseconds(300);
  hc.requestTimeout = std::chrono::milliseconds(300);
  HttpClient cl(hc);
  HttpClient::TlsConfig tc;
  tc.verifyPeer = c.verify != 0;
  if (c.anchor != 2)
    tc.caFile = C((std::string(ANCHOR[c.anchor]) + ".pem").c_str());
  cl.setTlsConfig(tc);
  bool got = false;
  try
  {
    auto resp = cl.get(std::string("https://") + (c.host ? "localhost" : "127.0.0.1") + ":9443/x", {{"X-Marker", MARKER}}, 0);
    got = resp.statusCode == 200;
  }
  catch (const std::exception &)
  {
  }
  mc_quiesce(100ull * 1000000ull);
  std::string why;
  bool allowed = clientAllowed(c, why);
  std::string wire = peer.conns.empty() ? "" : peer.conns[0].wire();
  bool reqAtPeer = !peer.conns.empty() && peer.conns[0].appIn.find(MARKER) != std::string::npos;
  mc_obs("%s -> response=%d request-at-peer=%d allowed=%d", name.c_str(), int(got), int(reqAtPeer), int(allowed));
  if ((got || reqAtPeer) && !allowed)
    mc_violation("client-auth", "http-client:exchange-despite:" + why, std::string("HttpClient ") + (got ? "returned a response" : "sent its request") + " although the server must not be trusted: " + why + " (" + name + ")");
  if (wire.find(MARKER) != std::string::npos)
    mc_violation("no-cleartext", "http-client:marker-in-clear", "request header bytes appear in clear text on the wire (" + name + ")");
  peer.stop();
}

// ---------------------------------------------------------------- HttpServer (TLS listener)  <->  independent client
// HttpServer::enableTls maps its own TlsConfig (certFile/keyFile/caFile/requireClientCert) onto the transport's
// serverTls block: the same oracle as the transport-level server, observed at the HTTP layer (was the handler invoked,
// did a response come back).
void httpServerSide()
{
  mc_label("main:http-server");
  simk_cfg.tcpRcvBuf = 65536;
  simk_cfg.shortIo = THOROUGH;
  ServerCell c;
  c.require = mc_choose(2, MC_FREE);
  c.cli = mc_choose(3, MC_FREE);
  c.ver = mc_choose(3, MC_FREE); // default, tls1.0, tls1.1 ceilings of the peer
  std::ostringstream o;
  o << "http-server require-client-cert=" << c.require << " client-cert=" << CLI[c.cli] << " peermax=" << VERN[c.ver];
  std::string name = o.str();
  auto *srv = new HttpServer("127.0.0.1", 9443);
  HttpServer::TlsConfig tc;
  tc.certFile = C("srv_ok.pem");
  tc.keyFile = C("srv_ok.key");
  if (c.require)
  {
    tc.caFile = C("ca_a.pem");
    tc.requireClientCert = true;
  }
  srv->enableTls(tc);
  bool handled = false;
  srv->onGet("/x",
             [&handled](const HttpServer::Request &, HttpServer::Response &res)
             {
               handled = true;
               res.set_content(std::string("BODY-") + MARKER, "text/plain");
             });
  srv->start();
  mc_quiesce();
  tp::PeerConfig pc;
  pc.server = false;
  if (c.cli)
  {
    pc.cert = C((std::string(CLI[c.cli]) + ".pem").c_str());
    pc.key = C((std::string(CLI[c.cli]) + ".key").c_str());
  }
  pc.maxVersion = VERS[c.ver];
  pc.toSend = "GET /x HTTP/1.1\r\nHost: x\r\n\r\n";
  tp::Peer peer(pc);
  peer.start(9443);
  peer.connectNow();
  mc_quiesce(300ull * 1000000ull);
  mc_quiesce(300ull * 1000000ull);
  bool admitAllowed = !(c.ver == 1 || c.ver == 2) && (!c.require || c.cli == 1);
  std::string why = (c.ver == 1 || c.ver == 2) ? std::string("peer-ceiling-") + VERN[c.ver] : std::string("client-cert-") + CLI[c.cli];
  bool gotResponse = !peer.conns.empty() && peer.conns[0].appIn.find("HTTP/1.1 200") != std::string::npos;
  int version = peer.conns.empty() ? 0 : peer.conns[0].version;
  std::string wire = peer.conns.empty() ? "" : peer.conns[0].wire();
  mc_obs("%s -> handled=%d response=%d version=%x admitAllowed=%d", name.c_str(), int(handled), int(gotResponse), version, int(admitAllowed));
  if ((handled || gotResponse) && !admitAllowed)
    mc_violation((c.ver == 1 || c.ver == 2) ? "tls12-floor" : "server-auth", "http-server:request-admitted-despite:" + why,
                 "the HTTP handler ran / a response was sent although the client must not be admitted: " + why + " (" + name + ")");
  if (wire.find(MARKER) != std::string::npos)
    mc_violation("no-cleartext", "http-server:marker-in-clear", "response bytes appear in clear text on the wire (" + name + ")");
  if ((handled || gotResponse) && version && version < TLS1_2_VERSION)
    mc_violation("tls12-floor", "http-server:negotiated-below-tls12", "negotiated version 0x" + std::to_string(version) + " (" + name + ")");
  peer.stop();
  srv->stop();
  delete srv;
}
} // namespace

int main(int argc, char **argv)
{
  iora::core::Logger::setLevel(iora::core::Logger::Level::Fatal);
  bool thorough = false;
  for (int i = 1; i + 1 < argc; ++i)
  {
    if (std::string(argv[i]) == "--tier" && std::string(argv[i + 1]) == "thorough")
      thorough = true;
    if (std::string(argv[i]) == "--certs")
      CERTS = argv[i + 1];
  }
  THOROUGH = thorough;
  if (CERTS.empty())
    CERTS = "/verif/build/certs";
  // the "system trust store" of this run is CA-B
  setenv("SSL_CERT_FILE", (CERTS + "/ca_b.pem").c_str(), 1);
  setenv("SSL_CERT_DIR", "/nonexistent", 1);
  // warm up OpenSSL (provider loading, error strings) before any execution child is forked
  tp::deterministicRand();
  SSL_CTX_free(SSL_CTX_new(TLS_client_method()));
  SSL_CTX_free(SSL_CTX_new(TLS_server_method()));
  std::vector<McScenario> v;
  {
    McScenario m;
    m.name = "transport_client";
    m.body = [thorough]() { clientSide(thorough); };
    m.quick.S = 0;
    m.thorough.S = 0;
    m.thorough.E = 1;
    m.thorough.P = 1;
    m.thorough.total = 1; // one deviation (preemption or short I/O) per cell
    m.horizon_s = 60;
    m.weight = 6;
    v.push_back(m);
  }
  {
    McScenario m;
    m.name = "transport_server";
    m.body = []() { serverSide(); };
    m.quick.S = 0;
    m.thorough.S = 0;
    m.thorough.E = 1;
    m.thorough.P = 1;
    m.thorough.total = 1; // one deviation (preemption or short I/O) per cell
    m.horizon_s = 60;
    m.weight = 2;
    v.push_back(m);
  }
  {
    McScenario m;
    m.name = "http_client";
    m.body = []() { httpClientSide(); };
    m.quick.S = 0;
    m.thorough.S = 0;
    m.thorough.E = 1;
    m.thorough.P = 1;
    m.thorough.total = 1; // one deviation (preemption or short I/O) per cell
    m.horizon_s = 60;
    m.weight = 2;
    v.push_back(m);
  }
  {
    McScenario m;
    m.name = "http_server";
    m.body = []() { httpServerSide(); };
    m.quick.S = 0;
    m.thorough.S = 0;
    m.thorough.E = 1;
    m.thorough.P = 1;
    m.thorough.total = 1;
    m.horizon_s = 60;
    m.weight = 2;
    v.push_back(m);
  }
  return mc_main(argc, argv, "C07_tls_auth", v);
}

// C19 part C — containment of malformed responses in DnsTransport::processResponse() (dns_transport.hpp ~l.980).
//
// Seam: a DnsTransport is constructed but never start()ed (no sockets; its constructor only creates the retry
// TimerService).  For every case a PendingQuery with a callback is inserted into pendingQueries_ (private members
// reached through -fno-access-control) under the key (id = first two bytes of the packet, "srv", 53) and the real
// processResponse(bytes, UDP, "srv", 53) is called.
//
// Oracle: nothing escapes processResponse; if DnsMessage::parse rejects the packet (and it has >= 2 bytes) the
// pending query is completed exactly once, with an error of the documented type, and is no longer pending; if parse
// accepts it the query is completed exactly once with that result.  No sanitizer report, no stall.
// Packets: single-record messages of every type from the independent generator (every compression layout), all their
// mutations (C19_dnsgen.hpp) and the poisoned (one bad pointer) messages.
#include "C19_dnsgen.hpp"
#include "bexh.hpp"
#include "iora/network/dns/dns_transport.hpp"
#include <unordered_set>

using namespace c19;
namespace dns = iora::network::dns;

enum Ctr
{
  C_EVAL = 0,
  C_PACKETS,
  C_COMPLETED_RESULT,
  C_COMPLETED_ERROR,
  C_TOO_SHORT,
  C_N
};
static const char *kCtrName[C_N] = {"evaluations", "packets", "pending_query_completed_with_result", "pending_query_completed_with_error",
                                    "packets_shorter_than_an_id"};
#include "C19_iso.hpp"

struct Job
{
  Built built;
  bool mutate = true;
  Bytes kase;
};

static std::shared_ptr<dns::DnsTransport> g_tr;

static void evalPacket(const Bytes &m, const Bytes &kase, const char *desc)
{
  CTR(C_EVAL)++;
  CTR(C_PACKETS)++;
  if (!g_tr)
  {
    dns::DnsConfig cfg;
    cfg.setServers(std::vector<std::string>{"127.0.0.1"});
    cfg.transportMode = dns::DnsTransportMode::UDP; // a truncated (TC) answer is then completed, not re-sent over TCP
    g_tr = std::make_shared<dns::DnsTransport>(cfg);
  }
  // what does the codec itself say?
  bool parseOk = false;
  {
    uint8_t *buf = static_cast<uint8_t *>(malloc(m.size() ? m.size() : 1));
    memcpy(buf, m.data(), m.size());
    try
    {
      dns::DnsMessage::parse(buf, m.size());
      parseOk = true;
    }
    catch (const std::exception &)
    {
    }
    free(buf);
  }
  uint16_t id = m.size() >= 2 ? uint16_t(((unsigned char)m[0] << 8) | (unsigned char)m[1]) : 0x1234;
  dns::DnsTransport::QueryKey key(id, "srv", 53);
  int calls = 0;
  bool gotError = false, documented = false;
  uint16_t gotId = 0;
  auto pq = std::make_shared<dns::DnsTransport::PendingQuery>(id, std::chrono::milliseconds(1000), "srv", uint16_t(53), std::vector<uint8_t>{0});
  pq->callback = [&](const dns::DnsResult &res, const std::exception_ptr &err)
  {
    ++calls;
    gotError = static_cast<bool>(err);
    gotId = res.header.id;
    if (err)
    {
      try
      {
        std::rethrow_exception(err);
      }
      catch (const dns::DnsParseException &)
      {
        documented = true;
      }
      catch (...)
      {
      }
    }
  };
  auto fut = pq->promise.get_future();
  {
    std::lock_guard<std::mutex> lock(g_tr->queriesMutex_);
    g_tr->pendingQueries_[key] = pq;
  }
  uint8_t *buf = static_cast<uint8_t *>(malloc(m.size() ? m.size() : 1));
  memcpy(buf, m.data(), m.size());
  std::string escaped;
  try
  {
    g_tr->processResponse(buf, m.size(), dns::DnsTransportMode::UDP, "srv", 53);
  }
  catch (const std::exception &e)
  {
    escaped = std::string("std::exception: ") + e.what();
  }
  catch (...)
  {
    escaped = "non-std exception";
  }
  free(buf);
  bool stillPending;
  {
    std::lock_guard<std::mutex> lock(g_tr->queriesMutex_);
    stillPending = g_tr->pendingQueries_.erase(key) > 0;
  }
  bool ready = fut.wait_for(std::chrono::seconds(0)) == std::future_status::ready;
  if (ready)
  {
    try
    {
      fut.get();
    }
    catch (...)
    {
    }
  }
  std::string d = std::string(desc) + ": ";
  if (!escaped.empty())
    return gViolation("response-error-contained", "exception-escapes-processResponse", kase, d + escaped);
  if (m.size() < 2)
  {
    CTR(C_TOO_SHORT)++;
    if (calls != 0)
      gViolation("response-error-contained", "completed-by-packet-without-id", kase, d + "a packet shorter than an ID completed a pending query");
    return;
  }
  if (calls != 1 || stillPending || !ready)
    return gViolation("response-error-contained", parseOk ? "valid-response:query-not-completed-once" : "malformed-response:query-not-completed-once", kase,
                      d + "callback invoked " + std::to_string(calls) + " times, still pending=" + std::to_string(stillPending) +
                        ", future ready=" + std::to_string(ready) + " (parse " + (parseOk ? "accepts" : "rejects") + " the packet)");
  if (!parseOk)
  {
    if (!gotError)
      return gViolation("response-error-contained", "malformed-response:completed-without-error", kase, d + "parse rejects the packet but the query completed with a result");
    if (!documented)
      return gViolation("response-error-contained", "malformed-response:undocumented-error-type", kase, d + "completion error is not a DnsParseException");
    CTR(C_COMPLETED_ERROR)++;
  }
  else
  {
    if (gotError || gotId != id)
      return gViolation("response-error-contained", "valid-response:completed-with-error", kase, d + "parse accepts the packet but the query completed with an error / another id");
    CTR(C_COMPLETED_RESULT)++;
  }
}

static void evalBatch(const std::vector<Job> &jobs, uint32_t startJob, uint32_t startCase)
{
  for (uint32_t ji = startJob; ji < jobs.size(); ++ji)
  {
    const Job &j = jobs[ji];
    uint32_t from = ji == startJob ? startCase : 0, idx = 0;
    if (idx >= from)
    {
      gPublish(ji, idx, j.kase, "generated");
      evalPacket(j.built.wire, j.kase, "generated");
      g_shm->inCase = 0;
    }
    ++idx;
    if (!j.mutate)
      continue;
    forEachMutant(j.built,
                  [&](const char *desc, const Bytes &m)
                  {
                    uint32_t my = idx++;
                    if (my < from)
                      return;
                    Bytes kase = "M:" + m;
                    gPublish(ji, my, kase, desc);
                    evalPacket(m, kase, desc);
                    g_shm->inCase = 0;
                  });
  }
}

static Bytes Bv(std::initializer_list<int> l)
{
  Bytes s;
  for (int c : l)
    s.push_back(char(c));
  return s;
}
static RecSpec rec(uint16_t type)
{
  RecSpec r;
  r.type = type;
  r.owner = nameAB();
  r.n1 = nameAB();
  r.n2 = nameB();
  switch (type)
  {
  case T_A: r.addr = Bv({10, 0, 0, 1}); break;
  case T_AAAA: r.addr = Bv({0x20, 1, 0x0d, 0xb8, 0, 0, 0, 0, 0, 0, 0, 0, 0, 0, 0, 1}); break;
  case T_UNK: r.addr = Bv({1, 2, 3}); break;
  case T_TXT: r.strings = {"v=1"}; break;
  case T_NAPTR: r.strings = {"S", "SIP+D2U", ""}; break;
  }
  return r;
}

static void onAlarm(int)
{
  const char m[] = "REPLAY: no result after 20 s -> violation (terminates)\n";
  if (write(1, m, sizeof m - 1) < 0)
  {
  }
  _exit(1);
}

int main(int argc, char **argv)
{
  vr::Args args(argc, argv);
  iora::core::Logger::setLevel(iora::core::Logger::Level::Fatal);
  if (!args.replay.empty())
  {
    Bytes kase = vr::readFile(args.replay);
    g_shm = new IsoShm();
    memset((void *)g_shm, 0, sizeof *g_shm);
    signal(SIGALRM, onAlarm);
    alarm(20);
    Bytes body = kase.size() >= 2 ? kase.substr(2) : Bytes();
    printf("REPLAY: processResponse on a %zu-byte packet\n", body.size());
    printf("(a sanitizer report below is printed unsymbolised; set UBSAN_OPTIONS=print_stacktrace=1:symbolize=1 ASAN_OPTIONS=symbolize=1 for names)\n");
  fflush(stdout);

    evalPacket(body, kase, "replay");
    alarm(0);
    uint64_t nv = 0;
    for (uint32_t i = 0; i < g_shm->nsig; ++i)
    {
      printf("  VIOLATION %s\n", g_shm->sigs[i].key);
      nv += g_shm->sigs[i].n;
    }
    printf("  completed with result: %llu, with error: %llu\n", (unsigned long long)CTR(C_COMPLETED_RESULT), (unsigned long long)CTR(C_COMPLETED_ERROR));
    printf("REPLAY: %s\n", nv ? "violation reproduced" : "no violation");
    fflush(stdout);
    _exit(nv ? 1 : 0);
  }
  bool thorough = args.thorough();
  double deadline = double(args.getInt("deadline", thorough ? 600 : 100));
  static const uint16_t types[11] = {T_A, T_AAAA, T_CNAME, T_MX, T_SRV, T_NAPTR, T_TXT, T_PTR, T_SOA, T_UNK, T_NS};
  vr::run_sharded(args, "C19_transport", "exploration", 120, deadline > 30 ? deadline - 10 : deadline,
                  [&](const vr::Shard &sh, vr::Report &r)
                  {
                    r.rule = "distinct packets (generated well-formed messages with >= 1 record; every mutant counts in 'evaluations')";
                    r.bounds["packets"] = std::string("1 record of each of 11 types, names a.b / b, every compression layout") +
                                          (thorough ? "; 2 records for all type pairs (names in full)" : "") +
                                          "; all mutations of C19_dnsgen.hpp (truncations, byte substitutions, counts, pointers, RDLENGTH); "
                                          "poisoned messages (one looping / out-of-range pointer per name position)";
                    r.bounds["seam"] = "un-started DnsTransport (UDP-only config), PendingQuery inserted by the harness, processResponse(mode=UDP)";
                    g_shm = (IsoShm *)mmap(nullptr, sizeof(IsoShm), PROT_READ | PROT_WRITE, MAP_SHARED | MAP_ANONYMOUS, -1, 0);
                    memset((void *)g_shm, 0, sizeof(IsoShm));
                    Iso iso;
                    iso.rep = &r;
                    iso.tick = [&sh]() { if (sh.slot) sh.slot->beats = sh.slot->beats + 1; };
                    std::vector<Job> batch;
                    std::unordered_set<uint64_t> seen;
                    uint64_t idx = 0;
                    bool stop = false;
                    auto flush = [&]()
                    {
                      if (batch.empty())
                        return;
                      sh.begin(idx, batch.front().kase);
                      iso.run(batch.size(), [&](uint32_t sj, uint32_t sc) { evalBatch(batch, sj, sc); });
                      sh.end();
                      batch.clear();
                      if (sh.timeUp() || iso.aborted)
                      {
                        stop = true;
                        r.exhaustive = false;
                        if (!iso.aborted)
                          r.notes.push_back("deadline reached: enumeration stopped early");
                      }
                    };
                    auto push = [&](const Built &b, bool mutate, bool wellFormed)
                    {
                      ++idx;
                      uint64_t h = fnv(b.wire);
                      if (stop || int(h % uint64_t(sh.W)) != sh.w || !seen.insert(h).second)
                        return;
                      Job j;
                      j.built = b;
                      j.mutate = mutate;
                      j.kase = (wellFormed ? "W:" : "M:") + b.wire;
                      if (wellFormed)
                        r.distinct_nontrivial++;
                      r.sampleEvery(97, std::string(wellFormed ? "well-formed " : "poisoned ") + hexs(b.wire).substr(0, 120));
                      batch.push_back(std::move(j));
                      if (batch.size() >= 32)
                        flush();
                    };
                    for (uint16_t t : types)
                    {
                      MsgSpec m;
                      m.qname = nameAB();
                      m.recs.push_back(rec(t));
                      Odo odo;
                      do
                      {
                        Builder bl;
                        bl.odo = &odo;
                        bl.build(m);
                        push(bl.b, true, true);
                      } while (odo.advance() && !stop);
                      int occs = 2 + (typeHasName(t) ? 1 : 0) + (t == T_SOA ? 1 : 0);
                      for (int o = 0; o < occs; ++o)
                      {
                        for (int k : {P_SELF, P_SELF_LABEL, P_OOB_SIZE, P_OOB_MAX, P_LAST_BYTE, P_FWD_NEXT})
                        {
                          Builder bl;
                          bl.poison.kind = k;
                          bl.poison.occ = o;
                          bl.build(m);
                          push(bl.b, false, false);
                        }
                        for (int o2 = o + 1; o2 < occs; ++o2)
                        {
                          Builder bl;
                          bl.poison.kind = P_MUTUAL;
                          bl.poison.occ = o;
                          bl.poison.occ2 = o2;
                          bl.build(m);
                          push(bl.b, false, false);
                        }
                      }
                    }
                    if (thorough)
                      for (uint16_t t1 : types)
                        for (uint16_t t2 : types)
                        {
                          MsgSpec m;
                          m.qname = nameAB();
                          m.recs.push_back(rec(t1));
                          m.recs.push_back(rec(t2));
                          m.recs[1].section = 1;
                          Builder bl;
                          bl.build(m);
                          push(bl.b, true, true);
                        }
                    flush();
                    r.bounds["stall_detection_s"] = "30";
                  });
  return 0;
}

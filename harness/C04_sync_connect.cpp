// C04: synchronous connect yields a live session or a definite error in time.
//
// Seam: the REAL Transport::connectSync / ITransport::connectSyncCancellable and the Impl
// onConnect/onClose handlers over harness/scripted_engine.hpp, whose I/O thread answers each
// connect according to a per-scenario policy (complete, refuse, black-hole, complete late,
// complete-then-reset).  Timeouts run on the virtual clock; "the timeout fires although the I/O
// thread could still run" is a bounded timer deviation, so every ordering of completion, failure,
// timeout expiry, cancellation and teardown relative to registration and wait is enumerated within
// the bounds.
//
// Oracle clauses (checked when all calls have returned and the engine is quiescent):
//   ok-means-live        ok(sid) only if the engine delivered onConnect(sid) and the transport did not
//                        itself issue close(sid) on behalf of that call
//   definite-error       otherwise one of Timeout / Cancelled / ShuttingDown / the engine's failure code
//   in-time              the call returns no later than timeout (+100 ms for the cancellable variant) of
//                        virtual time after it started
//   no-global-callbacks  the global connect/close callbacks never fire for a sid that no synchronous
//                        call handed to its caller
//   nothing-left-behind  every session the engine created for a call that did not return ok is closed
#include "mc.h"
#include "scripted_engine.hpp"

#include <sstream>

using namespace iora::network;
using vh::ConnectPolicy;
using vh::ScriptedEngine;

namespace
{
struct CallRec
{
  bool ok = false;
  SessionId sid = 0;
  TransportError code = TransportError::None;
  uint64_t startNs = 0, endNs = 0, devNs = 0;
  int timeoutMs = 0;
  bool cancellable = false;
  bool returned = false;
};

struct Scn
{
  const char *name;
  std::vector<ConnectPolicy> policies;
  int delayMs;
  std::vector<int> callerTimeoutsMs; // one caller thread per entry; negative = cancellable with |x| total timeout
  int teardown;                      // 0 none, 1 stop() from another thread, 2 last owner drops the transport
  int cancelAfterMs;                 // -1 none; else canceller thread sleeps this long then cancels
  int qP, qT, tP, tT;
};

void run(const Scn &sc)
{
  mc_label("main:setup");
  auto engU = std::make_unique<ScriptedEngine>();
  ScriptedEngine *eng = engU.get();
  eng->connectPolicies = sc.policies;
  eng->delayMs = sc.delayMs;
  TransportConfig cfg;
  std::shared_ptr<Transport> t = test::TransportEngineInjector::withEngine(std::move(engU), cfg);
  std::vector<SessionId> globalConnect, globalClose;
  t->onConnect([&](SessionId s, const TransportAddress &) { mc_yield_point("cb"); globalConnect.push_back(s); mc_obs("global onConnect %llu", (unsigned long long)s); });
  t->onClose([&](SessionId s, const TransportErrorInfo &) { mc_yield_point("cb"); globalClose.push_back(s); mc_obs("global onClose %llu", (unsigned long long)s); });
  t->start();
  // observation copies (the engine object dies with the transport in teardown==2)
  std::map<SessionId, int> onConnectDelivered, closeIssued, finalState;
  auto snapshot = [&]()
  {
    onConnectDelivered = eng->onConnectDelivered;
    closeIssued = eng->closeIssued;
    finalState = eng->state;
  };

  size_t n = sc.callerTimeoutsMs.size();
  std::vector<CallRec> calls(n);
  CancellationToken token;
  Transport *raw = t.get();
  std::vector<std::thread> th;
  for (size_t i = 0; i < n; ++i)
  {
    th.emplace_back(
      [&, i]()
      {
        std::string who = "caller" + std::to_string(i + 1);
        mc_label((who + ":connectSync").c_str());
        CallRec &c = calls[i];
        int to = sc.callerTimeoutsMs[i];
        c.cancellable = to < 0;
        c.timeoutMs = to < 0 ? -to : to;
        c.startNs = mc_now_ns();
        uint64_t dev0 = mc_deviation_ns();
        ConnectResult r = c.cancellable ? raw->connectSyncCancellable("10.0.0.1", 80, token, TlsMode::None, std::chrono::milliseconds(c.timeoutMs))
                                        : raw->connectSync("10.0.0.1", 80, TlsMode::None, std::chrono::milliseconds(c.timeoutMs));
        c.endNs = mc_now_ns();
        c.devNs = mc_deviation_ns() - dev0; // time during which runnable threads were merely slow
        c.returned = true;
        c.ok = r.isOk();
        if (c.ok)
          c.sid = r.value();
        else
          c.code = r.error().code;
        mc_obs("%s -> %s %llu", who.c_str(), c.ok ? "ok" : "err", c.ok ? (unsigned long long)c.sid : (unsigned long long)int(c.code));
        mc_label((who + ":done").c_str());
      });
  }
  if (sc.cancelAfterMs >= 0)
    th.emplace_back(
      [&]()
      {
        mc_label("canceller");
        if (sc.cancelAfterMs > 0)
          std::this_thread::sleep_for(std::chrono::milliseconds(sc.cancelAfterMs));
        token.cancel();
        mc_obs("cancel");
        mc_label("canceller:done");
      });
  if (sc.teardown == 1)
    th.emplace_back(
      [&]()
      {
        mc_label("stopper:stop");
        raw->stop();
        mc_obs("stop returned");
        mc_label("stopper:done");
      });
  if (sc.teardown == 2)
  {
    // sole owner drops the transport while callers may be parked inside it (they hold only a raw pointer):
    // exactly the situation the teardown handshake exists for
    mc_label("main:drop-last-owner");
    eng->afterEvent = [&]() { snapshot(); };
    snapshot();
    // destroy only once every caller is parked inside the call (before that, using the object at all
    // while it is destroyed is plain misuse, not the teardown handshake's business)
    mc_quiesce();
    t.reset();
    mc_obs("transport destroyed");
    mc_label("main:join");
    for (auto &x : th)
      x.join();
  }
  else
  {
    mc_label("main:join");
    for (auto &x : th)
      x.join();
    mc_quiesce(uint64_t(sc.delayMs + 10) * 1000000ull); // let late completions / queued closes happen
    snapshot();
  }
  mc_label("main:check");
  std::set<SessionId> handed;
  for (size_t i = 0; i < n; ++i)
  {
    CallRec &c = calls[i];
    std::string who = "caller" + std::to_string(i + 1);
    if (!c.returned)
      mc_violation("in-time", "call-never-returned", who + " never returned");
    uint64_t limit = uint64_t(c.timeoutMs + (c.cancellable ? 100 : 0)) * 1000000ull;
    if (c.endNs - c.startNs - c.devNs > limit)
      mc_violation("in-time", c.cancellable ? "late-return:cancellable" : "late-return", who + " returned after " + std::to_string((c.endNs - c.startNs) / 1000000ull) + " ms (timeout " + std::to_string(c.timeoutMs) + " ms)");
    if (c.ok)
    {
      handed.insert(c.sid);
      if (sc.teardown != 2 || onConnectDelivered.count(c.sid))
      {
        if (onConnectDelivered[c.sid] < 1)
          mc_violation("ok-means-live", "ok-without-handshake", who + " got ok(" + std::to_string(c.sid) + ") but the engine never completed that connect");
        if (closeIssued[c.sid] > 0)
          mc_violation("ok-means-live", "ok-for-session-closed-by-transport", who + " got ok(" + std::to_string(c.sid) + ") although the transport itself issued close() for it");
      }
    }
    else
    {
      bool def = c.code == TransportError::Timeout || c.code == TransportError::Cancelled || c.code == TransportError::ShuttingDown ||
                 c.code == TransportError::Socket || c.code == TransportError::Connect || c.code == TransportError::Resolve ||
                 c.code == TransportError::PeerClosed || c.code == TransportError::TLSHandshake;
      if (!def)
        mc_violation("definite-error", "unexpected-code:" + std::to_string(int(c.code)), who + " returned error code " + std::to_string(int(c.code)));
    }
  }
  for (SessionId s : globalConnect)
    if (!handed.count(s))
      mc_violation("no-global-callbacks", "global-onConnect-for-unhanded-sid", "global onConnect fired for sid " + std::to_string(s) + " which no synchronous connect returned to its caller");
  for (SessionId s : globalClose)
    if (!handed.count(s))
      mc_violation("no-global-callbacks", "global-onClose-for-unhanded-sid", "global onClose fired for sid " + std::to_string(s) + " which no synchronous connect returned to its caller");
  for (auto &kv : finalState)
    if (!handed.count(kv.first) && kv.second != 3)
      mc_violation("nothing-left-behind", "session-left-open", "engine session " + std::to_string(kv.first) + " (never handed to a caller) is still " + (kv.second == 1 ? "connecting" : "open") + " at the end");
  if (sc.teardown != 2)
  {
    t->stop();
    t.reset();
  }
}

using CP = ConnectPolicy;
const Scn SCN[] = {
  // name               policies                      delay callers      teardown cancel qP qT tP tT
  {"ok_immediate", {CP::Complete}, 50, {100}, 0, -1, 2, 1, 3, 2},
  {"refused", {CP::Refuse}, 50, {100}, 0, -1, 2, 1, 3, 2},
  {"blackhole_timeout", {CP::BlackHole}, 50, {50}, 0, -1, 2, 1, 3, 2},
  {"late_complete_equal", {CP::CompleteAfter}, 50, {50}, 0, -1, 2, 2, 3, 2},
  {"late_complete_after", {CP::CompleteAfter}, 60, {50}, 0, -1, 2, 2, 3, 2},
  {"late_refuse", {CP::RefuseAfter}, 50, {50}, 0, -1, 2, 2, 3, 2},
  {"complete_then_reset", {CP::CompleteThenClose}, 50, {100}, 0, -1, 2, 1, 3, 2},
  {"two_callers", {CP::CompleteAfter, CP::BlackHole}, 30, {50, 50}, 0, -1, 1, 1, 2, 2},
  {"stop_while_parked", {CP::BlackHole}, 50, {200}, 1, -1, 2, 1, 3, 2},
  {"stop_vs_complete", {CP::CompleteAfter}, 20, {200}, 1, -1, 2, 1, 3, 2},
  {"destroy_while_parked", {CP::BlackHole}, 50, {200}, 2, -1, 2, 1, 3, 2},
  {"cancel_blackhole", {CP::BlackHole}, 50, {-300}, 0, 120, 1, 1, 2, 2},
  {"cancel_vs_complete", {CP::CompleteAfter}, 150, {-300}, 0, 120, 1, 1, 2, 2},
  {"cancellable_timeout", {CP::BlackHole}, 50, {-250}, 0, -1, 1, 1, 2, 1},
};
} // namespace

int main(int argc, char **argv)
{
  iora::core::Logger::setLevel(iora::core::Logger::Level::Fatal);
  std::vector<McScenario> v;
  for (const Scn &s : SCN)
  {
    McScenario m;
    m.name = s.name;
    m.body = [s]() { run(s); };
    m.quick.P = s.qP;
    m.quick.T = s.qT;
    m.quick.S = 1;
    m.quick.total = std::max(2, s.qP);
    m.thorough.P = s.tP;
    m.thorough.T = s.tT;
    m.thorough.S = 2;
    m.thorough.total = std::max(3, s.tP);
    m.horizon_s = 60;
    v.push_back(m);
  }
  return mc_main(argc, argv, "C04_sync_connect", v);
}

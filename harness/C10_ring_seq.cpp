// C10 (part 3): sequential explicit-state search over the ring buffers' whole API (single-item,
// batch, peek, clear, resize, wrap-around) against a std::deque reference.
// State = operation history replayed on a FRESH real object; canonical key = (capacity, count,
// tail position mod capacity): the buffers never look at the element values, so two histories with
// equal keys have equal futures up to renaming of the values, and the deque comparison after
// every step checks the values themselves.
#include "report.hpp"
#include <iora/core/ring_buffer.hpp>

#include <deque>
#include <set>
#include <sstream>

using iora::core::DynamicRingBuffer;
using iora::core::RingBuffer;

namespace
{
struct Ref
{
  std::deque<int> q;
  size_t cap;
};

// op codes: 'p' push copy, 'm' push move, 'o' pop, 'k' peek, '1'..'3' pushBatch(n), 'a'..'c' popBatch(n),
// 'x' clear, 'R'+digit resize(digit) (dynamic only; encoded as chars 'r'(1) 's'(2) 't'(3) 'u'(4) 'v'(8))
const std::string OPS_FIXED = "pmok123abcx";
const std::string OPS_DYN = "pmok123abcxrstuv";

size_t nextPow2(size_t v)
{
  size_t p = 1;
  while (p < v)
    p <<= 1;
  return p;
}

template <typename RB> std::string applyAll(RB &rb, Ref &ref, const std::string &hist, bool dynamic)
{
  int next = 0;
  for (size_t i = 0; i < hist.size(); ++i)
  {
    char c = hist[i];
    std::ostringstream err;
    if (c == 'p' || c == 'm')
    {
      int v = next;
      bool ok = c == 'p' ? rb.tryPush(v) : rb.tryPush(std::move(v));
      bool exp = ref.q.size() < ref.cap;
      if (ok != exp)
        err << "push returned " << ok << " expected " << exp;
      if (exp)
        ref.q.push_back(next);
      if (ok)
        next++;
    }
    else if (c == 'o')
    {
      int v = -1;
      bool ok = rb.tryPop(v);
      bool exp = !ref.q.empty();
      if (ok != exp)
        err << "pop returned " << ok << " expected " << exp;
      else if (ok && v != ref.q.front())
        err << "pop value " << v << " expected " << ref.q.front();
      if (exp)
        ref.q.pop_front();
    }
    else if (c == 'k')
    {
      int v = -1;
      bool ok = rb.peek(v);
      bool exp = !ref.q.empty();
      if (ok != exp)
        err << "peek returned " << ok << " expected " << exp;
      else if (ok && v != ref.q.front())
        err << "peek value " << v << " expected " << ref.q.front();
    }
    else if (c >= '1' && c <= '3')
    {
      size_t n = size_t(c - '0');
      int items[3] = {next, next + 1, next + 2};
      size_t got = rb.tryPushBatch(items, n);
      size_t exp = std::min(n, ref.cap - ref.q.size());
      if (got != exp)
        err << "pushBatch(" << n << ") returned " << got << " expected " << exp;
      for (size_t k = 0; k < exp; ++k)
        ref.q.push_back(next + int(k));
      next += int(got);
    }
    else if (c >= 'a' && c <= 'c')
    {
      size_t n = size_t(c - 'a' + 1);
      int out[3] = {-1, -1, -1};
      size_t got = rb.tryPopBatch(out, n);
      size_t exp = std::min(n, ref.q.size());
      if (got != exp)
        err << "popBatch(" << n << ") returned " << got << " expected " << exp;
      for (size_t k = 0; k < exp && err.str().empty(); ++k)
      {
        if (out[k] != ref.q.front())
          err << "popBatch item " << k << " = " << out[k] << " expected " << ref.q.front();
        ref.q.pop_front();
      }
    }
    else if (c == 'x')
    {
      rb.clear();
      ref.q.clear();
    }
    else if (dynamic && c >= 'r' && c <= 'v')
    {
      static const size_t sizes[] = {1, 2, 3, 4, 8};
      size_t req = sizes[c - 'r'];
      if constexpr (std::is_same_v<RB, DynamicRingBuffer<int>>)
      {
        size_t dropped = rb.resize(req);
        size_t ncap = nextPow2(req);
        size_t expDrop = ref.q.size() > ncap ? ref.q.size() - ncap : 0;
        for (size_t k = 0; k < expDrop; ++k)
          ref.q.pop_front(); // oldest dropped, most recent kept (documented)
        ref.cap = ncap;
        if (dropped != expDrop)
          err << "resize(" << req << ") dropped " << dropped << " expected " << expDrop;
      }
    }
    // observers after every step
    if (err.str().empty())
    {
      if (rb.size() != ref.q.size())
        err << "size() " << rb.size() << " expected " << ref.q.size();
      else if (rb.empty() != ref.q.empty())
        err << "empty() wrong";
      else if (rb.full() != (ref.q.size() >= ref.cap))
        err << "full() wrong";
      else if (rb.capacity() != ref.cap)
        err << "capacity() " << rb.capacity() << " expected " << ref.cap;
      else if (rb.size() > rb.capacity())
        err << "size exceeds capacity";
    }
    if (!err.str().empty())
      return "step " + std::to_string(i) + " '" + std::string(1, c) + "': " + err.str();
  }
  return "";
}

template <typename RB, typename Make> void explore(const char *kind, Make make, size_t cap0, bool dynamic, int depth, vr::Report &r, uint64_t &transitions)
{
  const std::string &ops = dynamic ? OPS_DYN : OPS_FIXED;
  std::set<std::string> seen;
  std::vector<std::string> frontier{""};
  auto canon = [&](const std::string &hist) -> std::string
  {
    auto rb = make();
    Ref ref{{}, cap0};
    std::string e = applyAll(*rb, ref, hist, dynamic);
    if (!e.empty())
      return "!" + e;
    char b[96];
    size_t tailpos = 0;
    if constexpr (std::is_same_v<RB, DynamicRingBuffer<int>>)
      tailpos = rb->_tail.load() & rb->_mask;
    else
      tailpos = rb->_tail.load() & RB::kMask;
    snprintf(b, sizeof b, "cap=%zu n=%zu pos=%zu", ref.cap, ref.q.size(), tailpos);
    return b;
  };
  seen.insert(canon(""));
  for (int d = 0; d < depth && !frontier.empty(); ++d)
  {
    std::vector<std::string> nextF;
    for (const std::string &h : frontier)
      for (char c : ops)
      {
        std::string h2 = h + c;
        ++transitions;
        r.evaluations++;
        r.traces++;
        std::string k = canon(h2);
        if (k[0] == '!')
        {
          r.violation("agrees-with-fifo-reference", std::string(kind) + ":" + k.substr(k.find('\'')), std::string(kind) + ":" + h2, k.substr(1));
          continue;
        }
        if (seen.insert(k).second)
        {
          nextF.push_back(h2);
          r.sampleEvery(37, std::string(kind) + ":" + h2 + " -> " + k);
        }
      }
    frontier.swap(nextF);
  }
  r.states += seen.size();
  r.distinct_nontrivial += seen.size();
  r.counters[std::string(kind) + ".states"] = seen.size();
}
} // namespace

int main(int argc, char **argv)
{
  vr::Args args(argc, argv);
  vr::Report r("C10_ring_seq", "model_checking");
  r.rule = "breadth-first search over operation histories (alphabet: push copy/move, pop, peek, pushBatch 1-3, popBatch 1-3, clear, "
           "resize 1/2/3/4/8) replayed on a fresh real buffer; deduplicated by (capacity,count,tail position); every step compared with a "
           "std::deque reference incl. size/empty/full/capacity; distinct_nontrivial = distinct canonical states";
  int depth = args.thorough() ? 9 : 7;
  r.bounds["depth"] = std::to_string(depth);
  if (!args.replay.empty())
  {
    std::string c = vr::readFile(args.replay);
    while (!c.empty() && (c.back() == '\n' || c.back() == ' '))
      c.pop_back();
    size_t q = c.find(':');
    std::string kind = c.substr(0, q), hist = c.substr(q + 1);
    std::string e;
    if (kind == "RingBuffer<2>")
    {
      RingBuffer<int, 2> rb;
      Ref ref{{}, 2};
      e = applyAll(rb, ref, hist, false);
    }
    else if (kind == "RingBuffer<4>")
    {
      RingBuffer<int, 4> rb;
      Ref ref{{}, 4};
      e = applyAll(rb, ref, hist, false);
    }
    else
    {
      DynamicRingBuffer<int> rb(2);
      Ref ref{{}, 2};
      e = applyAll(rb, ref, hist, true);
    }
    printf("replay %s: %s\n", c.c_str(), e.empty() ? "agrees with reference" : e.c_str());
    return e.empty() ? 0 : 1;
  }
  uint64_t tr = 0;
  explore<RingBuffer<int, 2>>("RingBuffer<2>", []() { return std::make_unique<RingBuffer<int, 2>>(); }, 2, false, depth, r, tr);
  explore<RingBuffer<int, 4>>("RingBuffer<4>", []() { return std::make_unique<RingBuffer<int, 4>>(); }, 4, false, depth, r, tr);
  explore<DynamicRingBuffer<int>>("DynamicRingBuffer(2)", []() { return std::make_unique<DynamicRingBuffer<int>>(2); }, 2, true, depth, r, tr);
  r.transitions = tr;
  r.write(args.out + ".json");
  return 0;
}

// C14 — "The XML parser accepts only balanced documents and reports them faithfully".
// Bounded-exhaustive exploration of include/iora/parsers/xml.hpp (pull, SAX, DOM) — see DESIGN.md C14.
//
// Phases (each a fork-sharded exhaustive enumeration, nothing sampled):
//   trees   every generated well-formed document, default limits: three interfaces == generating tree;
//           generator's expectation cross-checked against CPython expat (oracle self-check)
//   limits  limit base documents x full product of {lo-1, lo, hi, hi+1} over the five limits
//   mutants every truncation and every single-byte substitution (16-byte alphabet) of every mutation
//           base document, under default limits and under limits tight around the base document
//   strings all byte strings up to a length over the same alphabet, default + tight limits
//   frags   all sequences of lexical fragments up to a length, default + tight limits
#include "C14_fam.hpp"
#include "C14_oracle.hpp"
#include "bexh.hpp"
#include <fstream>

using namespace c14;

static const unsigned char ALPHA[16] = {'<', '>', '/', '&', ';', '"', '\'', '!', '?', '-', '[', ']', 'a', ' ', 0, 0xff};
static const char *FRAGS[] = {"<a>", "</a>", "<b>", "</b>", "<a/>", "<ab x=\"1\">", "</ab>", "t", " ", "<!--", "-->", "<![CDATA[", "]]>", "<?p",
                              "?>", "<!DOCTYPE a [", "]>", "&e;", "<a x='", "'>"};
static const size_t NFRAGS = sizeof(FRAGS) / sizeof(FRAGS[0]);

struct Conf
{
  bool thorough;
  std::string oracle, tmp;
  int maxStr, maxFrag;
};

// ---------------------------------------------------------------- expat cross-check batches
struct ExpatBatch
{
  const Conf &cf;
  vr::Report &rep;
  std::string lines;
  std::vector<std::string> cases;
  std::string tag;
  int seq = 0;
  ExpatBatch(const Conf &c, vr::Report &r, const std::string &t) : cf(c), rep(r), tag(t) {}
  void add(const Doc &d, const std::string &kase)
  {
    lines += vr::hex(d.bytes) + "\t" + vr::hex(canonExpected(d.ev)) + "\n";
    cases.push_back(kase);
    if (cases.size() >= 20000)
      flush();
  }
  void flush()
  {
    if (cases.empty())
      return;
    std::string in = cf.tmp + "." + tag + "." + std::to_string(seq++) + ".in", out = in + ".res";
    {
      std::ofstream f(in, std::ios::binary);
      f << lines;
    }
    std::string cmd = "python3 '" + cf.oracle + "' '" + in + "' '" + out + "'";
    int rc = system(cmd.c_str());
    std::ifstream f(out);
    std::string l;
    bool done = false;
    while (std::getline(f, l))
    {
      if (l.rfind("DONE ", 0) == 0)
      {
        done = size_t(atol(l.c_str() + 5)) == cases.size();
        continue;
      }
      size_t a = l.find('\t'), b = l.find('\t', a + 1);
      if (a == std::string::npos || b == std::string::npos)
        continue;
      size_t idx = size_t(atol(l.substr(0, a).c_str()));
      std::string what = l.substr(a + 1, b - a - 1), got = vr::unhex(l.substr(b + 1));
      if (idx < cases.size())
        rep.violation("harness-internal", what == "REJECT" ? "expat-rejects-generated-document" : "generator-expectation-differs-from-expat", cases[idx],
                      what == "REJECT" ? "expat: " + got : "expat events: " + got);
    }
    if (rc != 0 || !done)
    {
      fprintf(stderr, "C14: expat oracle failed (rc=%d): %s\n", rc, cmd.c_str());
      fflush(nullptr);
      _exit(3);
    }
    rep.counters["expat_crosschecked"] += cases.size();
    remove(in.c_str());
    remove(out.c_str());
    lines.clear();
    cases.clear();
  }
};

// ---------------------------------------------------------------- shared enumeration glue
struct Walk
{
  const vr::Shard &sh;
  vr::Report &rep;
  HashSet seen;
  uint64_t g = 0;
  Walk(const vr::Shard &s, vr::Report &r) : sh(s), rep(r), seen(1 << 20) {}
  bool resumedPast(uint64_t idx) const { return sh.resumed && idx <= sh.resumeAfter; }
  bool owns(const H128 &h) const { return int(h.b % uint64_t(sh.W)) == sh.w; }
};

static Cfg tightAround(const Scan &s)
{
  Cfg c;
  c.d = s.maxDepth;
  c.a = s.maxAttrs;
  c.n = std::max(s.maxElemName, s.maxAttrName);
  c.t = s.maxTextStripped;
  c.k = s.tokens + 1;
  return c;
}

static std::vector<size_t> around(size_t lo, size_t hi, bool zeroSpecial)
{
  std::vector<size_t> v;
  auto add = [&](size_t x)
  {
    if (zeroSpecial && x == 0)
      return;
    for (size_t y : v)
      if (y == x)
        return;
    v.push_back(x);
  };
  if (lo > 0)
    add(lo - 1);
  add(lo);
  add(hi);
  add(hi + 1);
  return v;
}

// ---------------------------------------------------------------- phases
static void phaseTrees(const Conf &cf, const vr::Shard &sh, vr::Report &rep)
{
  rep.rule = "distinct generated well-formed documents (>=1 element, accepted by expat with the generator's event sequence) parsed through pull, SAX and DOM";
  Walk w(sh, rep);
  ExpatBatch eb(cf, rep, "w" + std::to_string(sh.w));
  Families fam(cf.thorough);
  Cfg def;
  bool complete = fam.run(
    [&](Doc &d) -> bool
    {
      ++w.g;
      H128 h = hash128(d.bytes);
      if (!w.seen.insert(h))
        return true;
      if (!w.owns(h))
        return true;
      if (w.resumedPast(w.g))
        return true;
      if ((w.g & 255) == 0 && sh.timeUp())
        return false;
      std::string kase = makeCase("tree", def, d.bytes);
      sh.begin(w.g, kase);
      rep.evaluations++;
      rep.counters["docs_" + d.family]++;
      rep.counters["max_doc_bytes"] = std::max<uint64_t>(rep.counters["max_doc_bytes"], d.bytes.size());
      Robust R = robust(rep, kase, d.bytes, def);
      if (d.wellFormed)
      {
        Faithful F = faithful(rep, kase, d, def, MustAccept, "");
        rep.distinct_nontrivial++;
        if (F.violations == 0 && R.violations == 0)
          rep.counters["docs_all_three_apis_equal_tree"]++;
        eb.add(d, kase);
        rep.sampleEvery(5000, d.bytes);
      }
      else
      {
        rep.counters["hostile_pull_accepted"] += R.pullAcc;
        rep.counters["hostile_dom_accepted"] += R.domAcc;
      }
      sh.end();
      return true;
    });
  eb.flush();
  if (!complete)
    rep.exhaustive = false;
}

static void phaseLimits(const Conf &cf, const vr::Shard &sh, vr::Report &rep)
{
  rep.rule = "distinct (limit base document, limit setting) pairs from the full product of {lo-1,lo,hi,hi+1} per limit that carry a demand (must-accept with equal events, or must-reject)";
  Walk w(sh, rep);
  Families fam(cf.thorough);
  bool complete = fam.run(
    [&](Doc &d) -> bool
    {
      ++w.g;
      if (!d.limits || !d.wellFormed)
        return true;
      H128 h = hash128(d.bytes);
      if (!w.seen.insert(h))
        return true;
      if (!w.owns(h))
        return true;
      if (sh.timeUp())
        return false;
      rep.counters["limit_base_docs"]++;
      auto D = around(d.depth, d.depth, false), A = around(d.attrs, d.attrs, false), N = around(d.nameLo, d.nameHi, false),
           T = around(d.textLo, d.textHi, false), K = around(d.tokens, d.tokens + 1, true);
      uint64_t s = 0;
      for (size_t vd : D)
        for (size_t va : A)
          for (size_t vn : N)
            for (size_t vt : T)
              for (size_t vk : K)
              {
                uint64_t idx = (w.g << 12) | (s++ & 4095);
                if (w.resumedPast(idx))
                  continue;
                Cfg c;
                c.d = vd;
                c.a = va;
                c.n = vn;
                c.t = vt;
                c.k = vk;
                std::string dims;
                Mode m = modeFor(d, c, &dims);
                std::string kase = makeCase("limit", c, d.bytes);
                sh.begin(idx, kase);
                rep.evaluations++;
                Faithful F = faithful(rep, kase, d, c, m, dims);
                robust(rep, kase, d.bytes, c);
                if (m != Either)
                  rep.distinct_nontrivial++;
                rep.counters[m == MustAccept ? "must_accept" : m == MustReject ? "must_reject" : "either"]++;
                if (m == Either)
                  rep.counters[F.accepted ? "either_accepted" : "either_rejected"]++;
                if (m == Either && !F.accepted && vk == d.tokens && vd >= d.depth && va >= d.attrs && vn >= d.nameHi && vt >= d.textHi)
                  rep.counters["rejected_with_token_limit_equal_to_token_count"]++;
                sh.end();
              }
      rep.sampleEvery(300, d.bytes);
      return true;
    });
  if (!complete)
    rep.exhaustive = false;
}

// robust evaluation of one byte string under default + tight limits, with accepted-distinct bookkeeping
static void evalBytes(vr::Report &rep, const vr::Shard &sh, uint64_t idx, const char *phase, const std::string &bytes, const Cfg &tight, HashSet *acceptedSeen,
                      uint64_t sampleEvery)
{
  Cfg def;
  Scan sc = scan(bytes);
  std::string kase = makeCase(phase, def, bytes);
  sh.begin(idx, kase);
  Robust R = robust(rep, kase, bytes, def, &sc);
  rep.evaluations++;
  if (R.pullAcc)
  {
    rep.counters["accepted_default"]++;
    if (R.hasElem && (!acceptedSeen || acceptedSeen->insert(hash128(bytes))))
    {
      rep.distinct_nontrivial++;
      rep.sampleEvery(sampleEvery, bytes);
    }
  }
  else
    rep.counters["rejected_default"]++;
  if (R.pullAcc && !R.domAcc)
    rep.counters["pull_accepts_dom_rejects"]++;
  std::string kase2 = makeCase(phase, tight, bytes);
  sh.begin(idx, kase2);
  Robust R2 = robust(rep, kase2, bytes, tight, &sc);
  rep.evaluations++;
  rep.counters[R2.pullAcc ? "accepted_tight" : "rejected_tight"]++;
  if (R.pullAcc && !R2.pullAcc)
    rep.counters["rejected_only_by_tight_limits"]++;
  sh.end();
}

static void phaseMutants(const Conf &cf, const vr::Shard &sh, vr::Report &rep)
{
  rep.rule = "distinct mutants (truncation or single-byte substitution of a generated document) that the parser accepts under default limits and that contain >=1 element; evaluations counts every (mutant, limit configuration) run";
  Walk w(sh, rep);
  HashSet acc(1 << 16);
  Families fam(cf.thorough);
  uint64_t gm = 0;
  bool complete = fam.run(
    [&](Doc &d) -> bool
    {
      if (!d.mutate)
        return true;
      if (!w.seen.insert(hash128(d.bytes)))
        return true;
      if (sh.timeUp())
        return false;
      if (sh.w == 0 && !sh.resumed)
      {
        rep.counters["mutation_base_docs"]++;
        rep.counters["max_base_bytes"] = std::max<uint64_t>(rep.counters["max_base_bytes"], d.bytes.size());
      }
      Cfg tight = tightAround(scan(d.bytes));
      const std::string &b = d.bytes;
      std::string m;
      auto one = [&]()
      {
        ++gm;
        H128 h = hash128(m);
        if (!w.owns(h) || w.resumedPast(gm))
          return;
        evalBytes(rep, sh, gm, "mut", m, tight, &acc, 20000);
      };
      for (size_t k = 0; k < b.size(); ++k)
      {
        m.assign(b, 0, k);
        one();
      }
      m = b;
      for (size_t i = 0; i < b.size(); ++i)
      {
        char orig = m[i];
        for (unsigned char a : ALPHA)
        {
          if (char(a) == orig)
            continue;
          m[i] = char(a);
          one();
        }
        m[i] = orig;
      }
      return true;
    });
  if (!complete)
    rep.exhaustive = false;
}

static void phaseStrings(const Conf &cf, const vr::Shard &sh, vr::Report &rep)
{
  rep.rule = "distinct byte strings over the 16-byte alphabet (all of them up to the length bound) that the parser accepts under default limits and that contain >=1 element";
  Cfg tight;
  tight.d = 1;
  tight.a = 1;
  tight.n = 1;
  tight.t = 1;
  tight.k = 2;
  uint64_t idx = 0;
  for (int len = 0; len <= cf.maxStr; ++len)
  {
    uint64_t total = 1;
    for (int i = 0; i < len; ++i)
      total *= 16;
    std::string s(size_t(len), '\0');
    for (uint64_t v = 0; v < total; ++v)
    {
      ++idx;
      if (!sh.mine(idx))
        continue;
      if ((idx & 4095) == unsigned(sh.w) && sh.timeUp())
      {
        rep.exhaustive = false;
        return;
      }
      uint64_t q = v;
      for (int i = len - 1; i >= 0; --i)
      {
        s[size_t(i)] = char(ALPHA[q & 15]);
        q >>= 4;
      }
      evalBytes(rep, sh, idx, "str", s, tight, nullptr, 500);
      // the decoder is a public entry point of its own
      std::string out;
      Buf b(s);
      bool ok = x::Parser::decodeEntities(b.view(), out);
      rep.counters[ok ? "decode_ok" : "decode_rejected"]++;
    }
  }
}

static void phaseFrags(const Conf &cf, const vr::Shard &sh, vr::Report &rep)
{
  rep.rule = "distinct concatenations of <=L lexical fragments (all sequences) that the parser accepts under default limits and that contain >=1 element";
  Cfg tight;
  tight.d = 2;
  tight.a = 1;
  tight.n = 2;
  tight.t = 2;
  tight.k = 4;
  HashSet acc(1 << 16);
  uint64_t idx = 0;
  for (int len = 1; len <= cf.maxFrag; ++len)
  {
    uint64_t total = 1;
    for (int i = 0; i < len; ++i)
      total *= NFRAGS;
    for (uint64_t v = 0; v < total; ++v)
    {
      ++idx;
      std::string s;
      uint64_t q = v;
      size_t pick[8];
      for (int i = len - 1; i >= 0; --i)
      {
        pick[i] = size_t(q % NFRAGS);
        q /= NFRAGS;
      }
      for (int i = 0; i < len; ++i)
        s += FRAGS[pick[i]];
      H128 h = hash128(s);
      if (int(h.b % uint64_t(sh.W)) != sh.w || (sh.resumed && idx <= sh.resumeAfter))
        continue;
      if ((idx & 1023) == 0 && sh.timeUp())
      {
        rep.exhaustive = false;
        return;
      }
      evalBytes(rep, sh, idx, "frag", s, tight, &acc, 2000);
    }
  }
}

// ---------------------------------------------------------------- replay
static int replay(const Conf &cf, const std::string &file)
{
  std::string kase = vr::readFile(file), phase, bytes;
  Cfg c;
  if (!parseCase(kase, phase, c, bytes))
  {
    printf("replay: cannot parse case header\n");
    return 2;
  }
  vr::Report rep("C14_xml/replay");
  rep.keep_per_sig = 100;
  printf("replay phase=%s cfg=(%s) bytes=%s\n", phase.c_str(), c.str().c_str(), vr::jstr(bytes).c_str());
  {
    Buf b(bytes);
    Run p = runPull(b.view(), c);
    printf("pull: %s%s, %zu tokens\n", p.accepted ? "accepted" : "rejected: ", p.err.c_str(), p.toks.size());
    for (auto &t : p.toks)
    {
      printf("  %-12s depth=%zu name=%s text=%s", kindName(t.kind), t.depth, vr::jstr(std::string(t.name)).c_str(), vr::jstr(std::string(t.text)).c_str());
      for (auto &a : t.attributes)
        printf(" %s=%s", std::string(a.name).c_str(), vr::jstr(std::string(a.value)).c_str());
      printf("\n");
    }
    DomRun d = runDom(b.view(), c);
    printf("dom: %s%s\n", d.doc ? "built" : "failed: ", d.err.c_str());
    Scan s = scan(bytes);
    printf("scanner: %s %s depth=%zu attrs=%zu name=%zu text=%zu tokens=%zu\n", s.verdict == Scan::Balanced ? "balanced" : s.verdict == Scan::Unbalanced ? "UNBALANCED" : "indeterminate",
           s.why.c_str(), s.maxDepth, s.maxAttrs, std::max(s.maxElemName, s.maxAttrName), s.maxTextStripped, s.tokens);
  }
  robust(rep, kase, bytes, c);
  if (phase == "tree" || phase == "limit")
  {
    bool found = false;
    for (int th = cf.thorough ? 1 : 0; th < 2 && !found; ++th)
    {
      Families fam(th == 1);
      fam.run(
        [&](Doc &d) -> bool
        {
          if (d.bytes != bytes)
            return true;
          found = true;
          if (d.wellFormed)
          {
            std::string dims;
            Mode m = modeFor(d, c, &dims);
            printf("generator: family=%s expectation=%s %s\n", d.family.c_str(), m == MustAccept ? "must-accept, events equal the tree" : m == MustReject ? "must-reject" : "either", dims.c_str());
            faithful(rep, kase, d, c, m, dims);
          }
          return false;
        });
    }
    if (!found)
      printf("generator: document not found in the enumeration; only the robustness oracle was applied\n");
  }
  for (auto &v : rep.violations)
    printf("VIOLATION clause=%s sig=%s :: %s\n", v.clause.c_str(), v.sig.c_str(), v.detail.c_str());
  printf("%s\n", rep.violation_total ? "violates" : "no violation");
  return rep.violation_total ? 1 : 0;
}

int main(int argc, char **argv)
{
  vr::Args args(argc, argv);
  Conf cf;
  cf.thorough = args.thorough();
  cf.oracle = args.get("oracle", "/verif/oracle/c14_expat.py");
  cf.tmp = args.out + ".expat";
  cf.maxStr = int(args.getInt("maxstr", cf.thorough ? 6 : 5));
  cf.maxFrag = int(args.getInt("maxfrag", cf.thorough ? 5 : 4));
  if (!args.replay.empty())
    return replay(cf, args.replay);
  double deadline = double(args.getInt("deadline", 0));
  double t0 = vr::now_s();
  std::string only = args.get("only", "");
  struct Ph
  {
    const char *name;
    void (*fn)(const Conf &, const vr::Shard &, vr::Report &);
    double share; // of the remaining budget
  } phases[] = {{"trees", phaseTrees, 0.35}, {"limits", phaseLimits, 0.3}, {"strings", phaseStrings, 0.3}, {"frags", phaseFrags, 0.4}, {"mutants", phaseMutants, 1.0}};
  for (auto &ph : phases)
  {
    if (!only.empty() && only != ph.name)
      continue;
    double left = deadline > 0 ? std::max(5.0, deadline - (vr::now_s() - t0) - 5) : 0;
    double budget = deadline > 0 ? left * ph.share : 0;
    vr::Args a = args;
    a.out = args.out + "." + ph.name;
    std::string part = std::string("C14_xml/") + ph.name;
    Bounds B = boundsFor(cf.thorough);
    double p0 = vr::now_s();
    vr::run_sharded(a, part, "exploration", 30.0, budget,
                    [&](const vr::Shard &sh, vr::Report &rep)
                    {
                      rep.bounds["tier"] = args.tier;
                      rep.bounds["tree_nodes_reduced_product"] = std::to_string(B.productNodes);
                      rep.bounds["tree_nodes_default_shapes"] = std::to_string(B.shapeNodes);
                      rep.bounds["sweep_nodes_leaf_labels"] = std::to_string(B.sweepLeafNodes);
                      rep.bounds["sweep_nodes_element_labels"] = std::to_string(B.sweepElemNodes);
                      rep.bounds["mutation_alphabet"] = "< > / & ; \" ' ! ? - [ ] a SP NUL 0xff";
                      rep.bounds["max_string_len"] = std::to_string(cf.maxStr);
                      rep.bounds["max_fragments"] = std::to_string(cf.maxFrag);
                      ph.fn(cf, sh, rep);
                    });
    fprintf(stderr, "C14 phase %-8s %.1fs\n", ph.name, vr::now_s() - p0);
  }
  return 0;
}

// C11 part 2: KVStore crash-point / torn-write enumeration with the TTL calls, under the
// deterministic scheduler (rt/mc.cpp, default schedule only: P=T=E=S=0) with virtual wall and steady
// clocks.  The TTL calls start the store's timing-wheel tick thread and eviction worker; under mcsched
// they run cooperatively and reproducibly, and absolute expiries written to the log are functions of the
// virtual wall clock only.
//
// Every enumeration dimension is an mc_choose(n, MC_FREE) choice, i.e. ALL alternatives are explored:
//   history (each position: end | one of the 11 calls)  x  crash point of the last call (every prefix of
//   the recorded file operations x every byte cut of the next write)  x  group of continuations
//   [x chunk of second-level crash points for continuation d].
// One execution (= one forked child) evaluates one such tuple; the groups exist only because the
// scheduler has 32 thread slots per execution and every TTL-bearing store instance uses two.
//
// Alphabet: set(a,1) set(a,2) set(b,"") remove(a) setBatch{a,b} clear compact close+reopen
//           set(a,3,ttl=100s) expireAt(a,now+250s) persist(a)
// Continuations a/b/c/d as in C11_kv_seq, each in the wall-clock variants "+0" and "+150 s between crash
// and reopen" (past the 100 s TTL, before the 250 s expireAt).  Histories without any TTL call are
// covered (deeper) by C11_kv_seq; here they only get the continuations whose further call is a TTL call.
#include "C11_kv.hpp"
#include "mc.h"

#include <sys/wait.h>
#include <unistd.h>

using namespace c11;

namespace
{
// ---------------------------------------------------------------------------------------------
// shared-memory side channel: counters + violations (an execution may find several; none is masked)
// ---------------------------------------------------------------------------------------------
struct ViolRec
{
  char clause[48], sig[200], kase[160], detail[900];
  uint32_t histLen;
};
struct SigSlot
{
  char key[256];
  uint64_t count;
  int ntop;
  ViolRec top[3]; // the 3 smallest cases (history length, then case text): deterministic whatever the arrival order
};
constexpr int MAXSIGS = 512;
constexpr int MAXCOUNTERS = 48;
struct SharedState
{
  volatile int lock;
  int ncounters;
  char counterName[MAXCOUNTERS][48];
  uint64_t counterVal[MAXCOUNTERS];
  int nsigs;
  uint64_t sigOverflow;
  SigSlot sigs[MAXSIGS];
  uint64_t samplesSeen;
  char samples[8][300];
};
SharedState *G = nullptr;
SharedSet g_distinct;

void lockG()
{
  while (__atomic_exchange_n(&G->lock, 1, __ATOMIC_ACQUIRE))
  {
  }
}
void unlockG() { __atomic_store_n(&G->lock, 0, __ATOMIC_RELEASE); }

bool recLess(const ViolRec &a, const ViolRec &b)
{
  if (a.histLen != b.histLen)
    return a.histLen < b.histLen;
  return strcmp(a.kase, b.kase) < 0;
}

struct McSink : Sink
{
  std::map<std::string, uint64_t> local;
  std::vector<ViolRec> viols;
  size_t histLen = 0;
  void violation(const std::string &clause, const std::string &sig, const std::string &kase, const std::string &detail) override
  {
    ViolRec v;
    memset(&v, 0, sizeof v);
    snprintf(v.clause, sizeof v.clause, "%s", clause.c_str());
    snprintf(v.sig, sizeof v.sig, "%s", sig.c_str());
    snprintf(v.kase, sizeof v.kase, "%s", kase.c_str());
    snprintf(v.detail, sizeof v.detail, "%s", detail.c_str());
    v.histLen = uint32_t(histLen);
    viols.push_back(v);
  }
  void count(const char *name, uint64_t n = 1) override { local[name] += n; }
  void distinct(uint64_t h) override { g_distinct.insert(h); }
  // publish at the end of the execution (an execution that dies publishes nothing)
  void commit()
  {
    lockG();
    for (auto &kv : local)
    {
      int i = 0;
      for (; i < G->ncounters; ++i)
        if (kv.first == G->counterName[i])
          break;
      if (i == G->ncounters && G->ncounters < MAXCOUNTERS)
      {
        snprintf(G->counterName[i], sizeof G->counterName[i], "%s", kv.first.c_str());
        G->counterVal[i] = 0;
        G->ncounters++;
      }
      if (i < MAXCOUNTERS)
      {
        if (kv.first.rfind("max_", 0) == 0)
          G->counterVal[i] = std::max(G->counterVal[i], kv.second);
        else
          G->counterVal[i] += kv.second;
      }
    }
    for (auto &v : viols)
    {
      std::string key = std::string(v.clause) + "/" + v.sig;
      int i = 0;
      for (; i < G->nsigs; ++i)
        if (key == G->sigs[i].key)
          break;
      if (i == G->nsigs)
      {
        if (G->nsigs >= MAXSIGS)
        {
          G->sigOverflow++;
          continue;
        }
        memset(&G->sigs[i], 0, sizeof G->sigs[i]);
        snprintf(G->sigs[i].key, sizeof G->sigs[i].key, "%s", key.c_str());
        G->nsigs++;
      }
      SigSlot &s = G->sigs[i];
      s.count++;
      // insert into the sorted top-3
      int pos = s.ntop;
      for (int k = 0; k < s.ntop; ++k)
        if (recLess(v, s.top[k]))
        {
          pos = k;
          break;
        }
      if (pos < 3)
      {
        for (int k = std::min(s.ntop, 2); k > pos; --k)
          s.top[k] = s.top[k - 1];
        s.top[pos] = v;
        if (s.ntop < 3)
          s.ntop++;
      }
    }
    unlockG();
  }
};

// ---------------------------------------------------------------------------------------------
// bounds
// ---------------------------------------------------------------------------------------------
struct Bounds
{
  int maxLen = 2;
  int cLen = 1;
  int dLen = -1;
  std::vector<int> walls{0, 150};
  std::vector<int> dWalls{0};
};
Bounds g_b;
std::string g_root;
bool g_replayMode = false;
CaseId g_replayCase;

bool hasTtl(const std::string &h)
{
  for (char c : h)
  {
    const OpDef *o = opDef(c);
    if (o && o->ttl)
      return true;
  }
  return false;
}

// continuations of a history, in a fixed order
std::vector<Cont> contsFor(const std::string &h)
{
  std::vector<Cont> v;
  int len = int(h.size());
  bool ttlHist = hasTtl(h);
  if (ttlHist)
  {
    ContPlan p;
    p.nops = NOPS_ALL;
    p.c = len <= g_b.cLen;
    p.d = false;
    p.wallAdv = g_b.walls;
    v = contList(p);
    if (len <= g_b.dLen)
      for (int w : g_b.dWalls)
        for (int i = 0; i < NOPS_ALL; ++i)
          v.push_back(Cont{'d', OPS[i].code, w});
  }
  else
  {
    // non-TTL history: a, b and the non-TTL further calls are C11_kv_seq's; only TTL further calls here
    if (len <= g_b.cLen)
      for (int i = NOPS_PLAIN; i < NOPS_ALL; ++i)
        v.push_back(Cont{'c', OPS[i].code, 0});
    if (len <= g_b.dLen)
      for (int i = NOPS_PLAIN; i < NOPS_ALL; ++i)
        v.push_back(Cont{'d', OPS[i].code, 0});
  }
  return v;
}
// Partition into groups, one execution each.  Thread budget: the scheduler has 32 thread slots per execution
// and a TTL-bearing store instance uses two, i.e. at most 15 instances: history (<= 1 + length) + the
// group's own instances + the reduction runs of evalPoint (worst case per finding: same continuation at
// wall +0, continuation a, the continuation on the call-boundary image).  {a,b} of one wall variant:
// 3 + 6 <= 9; one c: 3 + 7 <= 10; one d chunk: 1 + D_CHUNK + 7.
constexpr int D_CHUNK = 4; // second-level crash points per execution
constexpr uint64_t MAX_INSTANCES = 15;
std::vector<std::vector<Cont>> groupsFor(const std::string &h)
{
  std::vector<std::vector<Cont>> g;
  std::vector<Cont> ab;
  int abWall = -1;
  for (const Cont &c : contsFor(h))
  {
    if (c.kind == 'a' || c.kind == 'b')
    {
      if (!ab.empty() && abWall != c.wallAdvS)
      {
        g.push_back(ab);
        ab.clear();
      }
      abWall = c.wallAdvS;
      ab.push_back(c);
      continue;
    }
    if (!ab.empty())
    {
      g.push_back(ab);
      ab.clear();
    }
    g.push_back({c});
  }
  if (!ab.empty())
    g.push_back(ab);
  return g;
}

// exhaustive choice among n alternatives (n may exceed the scheduler's 20 options per point)
int chooseN(int n)
{
  if (n <= 1)
    return 0;
  if (n <= 20)
    return mc_choose(n, MC_FREE);
  int blocks = (n + 19) / 20;
  int hi = chooseN(blocks);
  int inBlock = std::min(20, n - hi * 20);
  int lo = mc_choose(inBlock, MC_FREE);
  return hi * 20 + lo;
}

Env makeEnv(bool verbose)
{
  Env env;
  env.settle = [] { mc_quiesce(0); };
  env.advanceWallMs = [](int64_t ms) { mc_advance_wall(ms * 1000000ll); };
  env.dir = g_root + "/w" + std::to_string(getppid()) + (verbose ? "r" : "");
  cfs::makeDirs(env.dir);
  env.verbose = verbose;
  return env;
}

void body()
{
  // 1. the history
  std::string h;
  for (int i = 0; i < g_b.maxLen; ++i)
  {
    int c = mc_choose(NOPS_ALL + 1, MC_FREE);
    if (c == 0)
      break;
    h.push_back(OPS[c - 1].code);
  }
  std::vector<std::vector<Cont>> groups = groupsFor(h);
  if (groups.empty())
  {
    mc_obs("h=%s no continuations at this length", h.c_str());
    return;
  }
  Env env = makeEnv(false);
  McSink sink;
  sink.histLen = h.size();
  Ctx c;
  c.env = &env;
  c.sink = &sink;
  // 2. run it on the real store, recording
  Level1 L = recordHistory(c, h);
  checkRecording(c, L);
  // 3. the crash point, 4. the continuation group
  int pi = chooseN(int(L.points.size()));
  int gi = chooseN(int(groups.size()));
  const CrashPoint &cp = L.points[size_t(pi)];
  if (pi == 0 && gi == 0)
  {
    sink.count("histories");
    sink.count("file_operations_recorded", L.rec.mutIdx.size());
    sink.count("max_history_file_operations", L.rec.mutIdx.size());
    sink.count("crash_points_last_call", L.points.size());
    // deterministic choice of samples: history number (digits = calls) divisible by 97, the first 8 of them
    uint64_t n = 0;
    for (char ch : h)
      for (int i = 0; i < NOPS_ALL; ++i)
        if (OPS[i].code == ch)
          n = n * uint64_t(NOPS_ALL + 1) + uint64_t(i + 1);
    lockG();
    if (n % 97 == 0 && n / 97 < 8)
      snprintf(G->samples[n / 97], sizeof G->samples[0], "kv h=%s :: [%s] file-ops=%zu crash-points(last call)=%zu groups=%zu", h.empty() ? "-" : h.c_str(),
               histName(h).c_str(), L.rec.mutIdx.size(), L.points.size(), groups.size());
    unlockG();
  }
  const std::vector<Cont> &grp = groups[size_t(gi)];
  if (grp.size() == 1 && grp[0].kind == 'd')
    c.dSelect = [](int total)
    {
      int chunks = (total + D_CHUNK - 1) / D_CHUNK;
      int k = chooseN(chunks);
      return std::make_pair(k * D_CHUNK, std::min(total, (k + 1) * D_CHUNK));
    };
  // crash_images is counted once per image (group 0), cases per continuation
  struct OncePerImage : Sink
  {
    Sink *in;
    bool first;
    void violation(const std::string &a, const std::string &b, const std::string &k, const std::string &d) override { in->violation(a, b, k, d); }
    void count(const char *name, uint64_t n) override
    {
      if (!first && (!strcmp(name, "crash_images") || !strcmp(name, "crash_images_torn")))
        return;
      in->count(name, n);
    }
    void distinct(uint64_t hsh) override { in->distinct(hsh); }
  } once;
  once.in = &sink;
  once.first = gi == 0;
  c.sink = &once;
  evalPoint(c, L, cp, grp);
  sink.count("max_store_instances_per_execution", c.instances);
  if (c.instances > MAX_INSTANCES)
    sink.violation("harness-internal", "instance-budget-exceeded", "kv h=" + h, std::to_string(c.instances) + " store instances in one execution");
  mc_obs("h=%s m=%d cut=%llu g=%d viol=%zu", h.c_str(), cp.m, (unsigned long long)cp.cut, gi, sink.viols.size());
  sink.commit();
}

void replayBody()
{
  const CaseId &id = g_replayCase;
  Env env = makeEnv(true);
  McSink sink;
  sink.histLen = id.hist.size();
  Ctx c;
  c.env = &env;
  c.sink = &sink;
  printf("== replay %s\n   history: %s\n", id.str().c_str(), histName(id.hist).c_str());
  Level1 L = recordHistory(c, id.hist);
  printf("   recorded file operations:\n");
  int mi = 0;
  for (auto &e : L.rec.ev)
  {
    if (e.mutation())
      printf("     [m=%d] %s%s\n", mi++, cfs::describe(e).c_str(), e.kind == cfs::WRITE ? ("  " + vr::hex(e.data)).c_str() : "");
    else
      printf("           %s\n", cfs::describe(e).c_str());
  }
  checkRecording(c, L);
  bool found = false;
  for (auto &cp : L.points)
    if (cp.m == id.m && cp.cut == id.cut)
    {
      found = true;
      c.onlyM2 = id.m2;
      c.onlyCut2 = id.cut2;
      evalPoint(c, L, cp, {id.cont});
    }
  fflush(stdout);
  if (!found)
    mc_violation("harness-internal", "replay-bad-crash-point", "the crash point is not one of the last call of this history");
  printf("== %zu violation(s)\n", sink.viols.size());
  for (auto &v : sink.viols)
    printf("   %s / %s :: %s\n", v.clause, v.sig, v.detail);
  fflush(stdout);
  if (!sink.viols.empty())
    mc_violation(sink.viols[0].clause, sink.viols[0].sig, sink.viols[0].detail);
}
} // namespace

int main(int argc, char **argv)
{

  vr::Args args(argc, argv);
  if (args.thorough())
  {
    g_b.maxLen = 4;
    g_b.cLen = 3;
    g_b.dLen = 1;
  }
  else
  {
    g_b.maxLen = 3;
    g_b.cLen = 2;
    g_b.dLen = 0;
  }
  g_b.maxLen = int(args.getInt("maxlen", g_b.maxLen));
  g_b.cLen = int(args.getInt("clen", g_b.cLen));
  g_b.dLen = int(args.getInt("dlen", g_b.dLen));
  g_root = "/verif/build/scratch/C11/" + std::to_string(getpid());
  cfs::makeDirs(g_root);
  cfs::elideSync(true);
  G = (SharedState *)mmap(nullptr, sizeof(SharedState), PROT_READ | PROT_WRITE, MAP_SHARED | MAP_ANONYMOUS, -1, 0);
  memset(G, 0, sizeof *G);
  g_distinct.init(1 << 24);

  std::vector<McScenario> v;
  McScenario m;
  m.name = "crash";
  m.body = body;
  m.quick = McBounds{};
  m.quick.S = 0;
  m.thorough = m.quick;
  m.horizon_s = 3600;
  m.exec_timeout_s = 120;
  v.push_back(m);

  int rc = 0;
  if (!args.replay.empty())
  {
    std::string text = vr::readFile(args.replay);
    while (!text.empty() && (text.back() == '\n' || text.back() == ' '))
      text.pop_back();
    if (text.rfind("kv ", 0) == 0)
    {
      if (!CaseId::parse(text, g_replayCase))
      {
        fprintf(stderr, "replay: cannot parse '%s'\n", text.c_str());
        return 2;
      }
      McScenario r = m;
      r.name = "replay";
      r.body = replayBody;
      v.push_back(r);
      std::string tmp = g_root + "/replay.case";
      FILE *f = fopen(tmp.c_str(), "w");
      fprintf(f, "scenario=replay;tier=%s;choices=", args.tier.c_str());
      fclose(f);
      std::vector<std::string> av{argv[0], "--tier", args.tier, "--replay", tmp};
      std::vector<char *> avp;
      for (auto &s : av)
        avp.push_back(&s[0]);
      rc = mc_main(int(avp.size()), avp.data(), "C11_kv_ttl", v);
    }
    else
      rc = mc_main(argc, argv, "C11_kv_ttl", v);
    cfs::removeTree(g_root);
    return rc;
  }

  rc = mc_main(argc, argv, "C11_kv_ttl", v);

  vr::Report rep("C11_kv_ttl/enum", "fault_enumeration");
  rep.rule = "evaluations = (crash image, continuation) cases, each reopened on the real recovery path inside a scheduler execution; "
             "distinct_nontrivial = distinct (directory image content, continuation) pairs whose image is torn or lies inside a call that changes a key";
  rep.bounds["alphabet"] = "set(a,1) set(a,2) set(b,\"\") remove(a) setBatch{a,b} clear compact close+reopen set(a,3,ttl=100s) expireAt(a,now+250s) persist(a)";
  rep.bounds["history_length"] = "<=" + std::to_string(g_b.maxLen) + " (all histories; crash points of the last call)";
  rep.bounds["continuations"] = "histories with a TTL call: a,b always, c (11 further calls) for length<=" + std::to_string(g_b.cLen) +
                                ", each at wall +0 s and +150 s; d (11 further calls crashed at every point, wall +0) for length<=" + std::to_string(g_b.dLen) +
                                "; histories without TTL call: only c/d with the 3 TTL further calls (rest is part C11_kv_seq)";
  rep.bounds["crash_points"] = "every prefix of the recorded file operations x every byte cut of the next write";
  rep.bounds["store_config"] = "enableBackgroundCompaction=false maxLogSizeBytes=64 maxCacheSize=4 ttlTick=1s (default wheel)";
  rep.bounds["schedule"] = "default schedule only (P=T=E=S=0), virtual clocks; background threads run to their waits after every call";
  for (int i = 0; i < G->ncounters; ++i)
    rep.counters[G->counterName[i]] = G->counterVal[i];
  rep.evaluations = rep.counters["cases"];
  rep.traces = rep.counters["histories"];
  rep.distinct_nontrivial = *g_distinct.count;
  for (int i = 0; i < 8; ++i)
    if (G->samples[i][0])
      rep.sample(G->samples[i]);
  // violations: per sig the 3 smallest cases, sigs in sorted order
  std::vector<int> order;
  for (int i = 0; i < G->nsigs; ++i)
    order.push_back(i);
  std::sort(order.begin(), order.end(), [](int a, int b) { return strcmp(G->sigs[a].key, G->sigs[b].key) < 0; });
  for (int i : order)
  {
    SigSlot &s = G->sigs[i];
    for (int k = 0; k < s.ntop; ++k)
      rep.violation(s.top[k].clause, s.top[k].sig, s.top[k].kase, s.top[k].detail);
    rep.sig_counts[s.key] = s.count;
    rep.violation_total += s.count - uint64_t(s.ntop);
  }
  if (G->sigOverflow)
  {
    rep.exhaustive = false;
    rep.notes.push_back("more than " + std::to_string(MAXSIGS) + " distinct violation signatures: some were dropped");
  }
  rep.write(args.out + ".enum.json");
  cfs::removeTree(g_root);
  return rc;
}

// C15 client side: oracle clauses = comparison of what the real framing code did (c15::Driven)
// with the verdict of the independent reference framer (oracle/c15_client_ref.hpp).
#pragma once
#include "../oracle/c15_client_ref.hpp"
#include "C15_client_drive.hpp"
#include "report.hpp"
#include <algorithm>
#include <map>
#include <set>

namespace c15
{

struct Finding
{
  std::string clause, sig, detail;
};

// What differs between the framed response and the reference message ("" = nothing).
inline std::string diffMessage(const Driven &d, const c15ref::Result &ref, std::string &detail)
{
  const c15ref::Message &m = ref.msg;
  if (d.resp.statusCode != m.status)
  {
    detail = "status expected " + std::to_string(m.status) + " got " + std::to_string(d.resp.statusCode);
    return "status";
  }
  if (d.resp.statusText != m.reason)
  {
    detail = "reason-phrase expected " + vr::jstr(m.reason) + " got " + vr::jstr(d.resp.statusText);
    return "reason";
  }
  if (d.resp.body != m.body)
  {
    detail = "body expected " + vr::jstr(m.body) + " got " + vr::jstr(d.resp.body);
    return "body";
  }
  // header map: same set of (case-insensitive) names as the header section; for a name occurring
  // once the value must be exact; for a repeated name (a std::map<string,string> cannot hold both)
  // any single occurrence or the RFC 9110 5.3 combination is accepted.  Trailer fields may be
  // dropped (what iora does) or be present under names not used in the header section.
  std::map<std::string, std::vector<std::string>> want;
  for (auto &f : m.fields)
    want[c15ref::detail::lower(f.name)].push_back(f.value);
  std::map<std::string, std::vector<std::string>> trailerWant;
  for (auto &f : m.trailers)
    trailerWant[c15ref::detail::lower(f.name)].push_back(f.value);
  std::set<std::string> seen;
  for (auto &kv : d.resp.headers)
  {
    std::string n = c15ref::detail::lower(kv.first);
    auto it = want.find(n);
    const std::vector<std::string> *vals = nullptr;
    if (it != want.end())
      vals = &it->second;
    else
    {
      auto tt = trailerWant.find(n);
      if (tt != trailerWant.end())
        vals = &tt->second;
    }
    if (!vals)
    {
      detail = "header " + vr::jstr(kv.first) + " = " + vr::jstr(kv.second) + " was never sent";
      return "headers";
    }
    bool ok = false;
    std::string j1, j2;
    for (size_t i = 0; i < vals->size(); ++i)
    {
      if ((*vals)[i] == kv.second)
        ok = true;
      j1 += (i ? ", " : "") + (*vals)[i];
      j2 += (i ? "," : "") + (*vals)[i];
    }
    if (kv.second == j1 || kv.second == j2)
      ok = true;
    if (!ok)
    {
      detail = "header " + vr::jstr(kv.first) + " expected " + vr::jstr(j1) + " got " + vr::jstr(kv.second);
      return "headers";
    }
    if (it != want.end())
      seen.insert(n);
  }
  for (auto &kv : want)
    if (!seen.count(kv.first))
    {
      detail = "header " + vr::jstr(kv.first) + " (value " + vr::jstr(kv.second[0]) + ") missing from the response";
      return "headers";
    }
  return "";
}

// Smallest prefix length at which the loop has been handed >= need bytes under this segmentation.
inline size_t boundaryAtOrAfter(size_t need, size_t total, const std::vector<size_t> &cuts, size_t uniform)
{
  // same read model as c15::drive(): next cut / uniform size, never more than the 8192-byte buffer
  size_t off = 0, ci = 0;
  while (off < total)
  {
    size_t segEnd = uniform ? std::min(total, off + uniform) : (ci < cuts.size() ? cuts[ci] : total);
    if (segEnd - off > 8192)
      segEnd = off + 8192;
    off = segEnd;
    if (!uniform && ci < cuts.size() && cuts[ci] == off)
      ++ci;
    if (off >= need)
      return off;
  }
  return total;
}

// Evaluate one driven run against the reference verdict.  `segTag` is "unsplit" or a structural
// description of the segmentation (region(s) holding the cut(s)) and only decorates the sig.
inline void judge(const Driven &d, const c15ref::Result &ref, size_t streamSize, const std::vector<size_t> &cuts,
                  size_t uniform, uint64_t cap, std::vector<Finding> &out)
{
  using c15ref::Verdict;
  const std::string fr = ref.framing.empty() ? "undetermined" : ref.framing;
  if (d.outcome == Outcome::ForeignException)
    out.push_back({"only-framing-errors-escape", fr + ":" + d.what.substr(0, d.what.find(':')),
                   "exception other than HttpFramingError escaped frameResponse: " + d.what});
  // buffered bytes: never above the cap once an iteration has returned; transiently at most one read more
  if (d.peakAfterReturn > cap || d.peakDecoded > cap || d.peakBuffered > cap + 8192)
    out.push_back({"buffer-within-cap", fr,
                   "cap " + std::to_string(cap) + " but buffered " + std::to_string(d.peakAfterReturn) + " (peak " +
                     std::to_string(d.peakBuffered) + ", decoded " + std::to_string(d.peakDecoded) + ")"});

  switch (ref.verdict)
  {
  case Verdict::DontCare:
    return;
  case Verdict::MustNotComplete:
    if (d.outcome == Outcome::Complete)
    {
      bool trunc = ref.why.rfind("truncated", 0) == 0;
      out.push_back({trunc ? "truncated-not-framed" : "invalid-length-rejected", ref.why.substr(ref.why.find(':') + 1),
                     "reference: " + ref.why + " => no message may be framed; implementation framed status " +
                       std::to_string(d.resp.statusCode) + " mode " + modeName(d.mode) + " body " + vr::jstr(d.resp.body)});
    }
    return;
  case Verdict::Either:
  case Verdict::MustEqual:
    break;
  }
  if (d.outcome != Outcome::Complete)
  {
    if (ref.verdict == Verdict::Either && d.outcome == Outcome::FramingError)
      return;
    if (d.outcome == Outcome::ForeignException)
      return; // already reported
    out.push_back({"framed-equals-reference", fr + ":outcome=" + outcomeName(d.outcome),
                   "reference frames a valid " + fr + " response (status " + std::to_string(ref.msg.status) + ", body " +
                     vr::jstr(ref.msg.body) + "); implementation: " + outcomeName(d.outcome) + " (" + d.what + ")"});
    return;
  }
  std::string detail;
  std::string what = diffMessage(d, ref, detail);
  if (!what.empty())
  {
    out.push_back({"framed-equals-reference", fr + ":" + what, detail});
    return;
  }
  // message boundary: bytes consumed, surplus detection, completion at the earliest possible read
  if (d.consumed != ref.consumed)
    out.push_back({"consumed-equals-reference", fr + ":message-end",
                   "message ends at offset " + std::to_string(ref.consumed) + " but implementation consumed " +
                     std::to_string(d.consumed)});
  else if (!ref.closeDelimited)
  {
    size_t expectFed = boundaryAtOrAfter(ref.consumed, streamSize, cuts, uniform);
    if (d.fedAtEnd != expectFed)
      out.push_back({"consumed-equals-reference", fr + ":completion-point",
                     "message complete after " + std::to_string(ref.consumed) + " bytes, first read boundary at " +
                       std::to_string(expectFed) + " but implementation completed after " + std::to_string(d.fedAtEnd)});
    else if (d.forceEvict != (d.fedAtEnd > ref.consumed))
      out.push_back({"consumed-equals-reference", fr + ":surplus-flag",
                     std::string("surplus bytes in buffer: ") + (d.fedAtEnd > ref.consumed ? "yes" : "no") +
                       " but forceEvict=" + (d.forceEvict ? "true" : "false")});
  }
  else if (!d.forceEvict)
    out.push_back({"consumed-equals-reference", fr + ":surplus-flag", "close-delimited response not marked non-reusable"});
}

} // namespace c15

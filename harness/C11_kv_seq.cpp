// C11 part 1: KVStore crash-point / torn-write enumeration, sequential part (no TTL calls, hence no
// background threads and no clock dependence: the store is a pure function of the call sequence).
//
// Enumerated (nothing sampled): ALL histories up to the tier's length bound over the 8-call alphabet
//   set(a,1) set(a,2) set(b,"") remove(a) setBatch{a,b} clear() compact() close+reopen
// with background compaction OFF and maxLogSizeBytes = 64 (inline compaction inside short histories);
// for each history every crash point of its LAST call (the crash points of earlier calls are the crash
// points of the shorter history, which is its own case; the log of a prefix history is a prefix of the
// log — the recorder's determinism is re-checked on every history) = every prefix of the recorded file
// operations x every byte cut of the next write; for each image the continuations
//   a: reopen                       b: reopen, clean close, reopen
//   c: reopen, one further call from the alphabet, clean close, reopen
//   d: reopen, one further call crashed at every point (every prefix x every cut again), reopen
// The TTL calls (set with ttl, expireAt, persist), the wall-clock variants and the background threads
// they start live in part C11_kv_ttl under the deterministic scheduler.
#include "bexh.hpp"
#include "C11_kv.hpp"

using namespace c11;

namespace
{
struct PlainSink : Sink
{
  vr::Report *r = nullptr;
  SharedSet *set = nullptr;
  void violation(const std::string &clause, const std::string &sig, const std::string &kase, const std::string &detail) override
  {
    r->violation(clause, sig, kase, detail);
  }
  void count(const char *name, uint64_t n) override { r->counters[name] += n; }
  void distinct(uint64_t h) override
  {
    if (set)
      set->insert(h);
  }
};

struct Bounds
{
  int maxLen = 3;  // histories up to this length
  int cLen = 2;    // continuation c for histories up to this length
  int dLen = 1;    // continuation d for histories up to this length
};
Bounds boundsFor(const vr::Args &args)
{
  Bounds b;
  if (args.thorough())
  {
    b.maxLen = 5;
    b.cLen = 5;
    b.dLen = 3;
  }
  else
  {
    b.maxLen = 4;
    b.cLen = 4;
    b.dLen = 2;
  }
  b.maxLen = int(args.getInt("maxlen", b.maxLen));
  b.cLen = int(args.getInt("clen", b.cLen));
  b.dLen = int(args.getInt("dlen", b.dLen));
  return b;
}
ContPlan planFor(const Bounds &b, size_t len)
{
  ContPlan p;
  p.nops = NOPS_PLAIN;
  p.c = int(len) <= b.cLen;
  p.d = int(len) <= b.dLen;
  return p;
}

// all histories of exactly length n over the first NOPS_PLAIN ops, in alphabet order
void forEachHistory(int maxLen, const std::function<bool(const std::string &)> &f)
{
  for (int n = 0; n <= maxLen; ++n)
  {
    std::vector<int> d(size_t(n), 0);
    for (;;)
    {
      std::string h;
      for (int x : d)
        h.push_back(OPS[x].code);
      if (!f(h))
        return;
      int i = n - 1;
      while (i >= 0 && ++d[size_t(i)] == NOPS_PLAIN)
        d[size_t(i--)] = 0;
      if (i < 0)
        break;
    }
  }
}

bool sameLog(const std::vector<cfs::Event> &a, const std::vector<cfs::Event> &b)
{
  if (a.size() != b.size())
    return false;
  for (size_t i = 0; i < a.size(); ++i)
    if (a[i].kind != b[i].kind || a[i].op != b[i].op || a[i].path != b[i].path || a[i].path2 != b[i].path2 || a[i].off != b[i].off ||
        a[i].len != b[i].len || a[i].data != b[i].data || a[i].created != b[i].created || a[i].truncated != b[i].truncated)
      return false;
  return true;
}

int replay(const vr::Args &args, const std::string &scratch)
{
  std::string text = vr::readFile(args.replay);
  while (!text.empty() && (text.back() == '\n' || text.back() == ' '))
    text.pop_back();
  CaseId id;
  if (!CaseId::parse(text, id))
  {
    fprintf(stderr, "replay: cannot parse case '%s'\n", text.c_str());
    return 2;
  }
  vr::Report rep(args.get("part", "C11_kv_seq"), "fault_enumeration");
  PlainSink sink;
  sink.r = &rep;
  Env env;
  env.dir = scratch;
  env.verbose = true;
  Ctx c;
  c.env = &env;
  c.sink = &sink;
  printf("== replay %s\n   history: %s\n", text.c_str(), histName(id.hist).c_str());
  Level1 L = recordHistory(c, id.hist);
  printf("   recorded file operations:\n");
  int mi = 0;
  for (auto &e : L.rec.ev)
  {
    if (e.mutation())
      printf("     [m=%d] %s%s\n", mi++, cfs::describe(e).c_str(), e.kind == cfs::WRITE ? ("  " + vr::hex(e.data)).c_str() : "");
    else
      printf("           %s\n", cfs::describe(e).c_str());
  }
  checkRecording(c, L);
  bool found = false;
  Bounds b = boundsFor(args);
  for (auto &cp : L.points)
    if (cp.m == id.m && cp.cut == id.cut)
    {
      found = true;
      std::vector<Cont> conts;
      if (id.cont.kind == '*')
        conts = contList(planFor(b, id.hist.size()));
      else
        conts.push_back(id.cont);
      c.onlyM2 = id.m2;
      c.onlyCut2 = id.cut2;
      evalPoint(c, L, cp, conts);
    }
  if (!found)
  {
    // crash points of earlier calls belong to the shorter history
    printf("   crash point m=%d cut=%llu is not a crash point of the last call of this history\n", id.m, (unsigned long long)id.cut);
    return 2;
  }
  printf("== %llu violation(s)\n", (unsigned long long)rep.violation_total);
  for (auto &v : rep.violations)
    printf("   %s / %s :: %s\n", v.clause.c_str(), v.sig.c_str(), v.detail.c_str());
  return rep.violation_total ? 1 : 0;
}
} // namespace

int main(int argc, char **argv)
{
  vr::Args args(argc, argv);
  double deadline = double(args.getInt("deadline", 600));
  std::string root = "/verif/build/scratch/C11/" + std::to_string(getpid());
  cfs::makeDirs(root);
  cfs::elideSync(true);
  if (!args.replay.empty())
  {
    int rc = replay(args, root);
    cfs::removeTree(root);
    return rc;
  }
  Bounds b = boundsFor(args);
  SharedSet distinct;
  distinct.init(1 << 26);
  const std::string part = args.get("part", "C11_kv_seq");

  vr::run_sharded(
      args, part, "fault_enumeration", 120, deadline > 40 ? deadline - 20 : deadline,
      [&](const vr::Shard &sh, vr::Report &rep)
      {
        std::string dir = root + "/w" + std::to_string(sh.w) + "-" + std::to_string(getpid());
        cfs::makeDirs(dir);
        PlainSink sink;
        sink.r = &rep;
        sink.set = &distinct;
        Env env;
        env.dir = dir;
        rep.rule = "evaluations = (crash image, continuation) cases, each reopened on the real recovery path; distinct_nontrivial = distinct "
                   "(directory image content, continuation) pairs whose image is torn (cut inside a write) or lies inside a call that changes a key";
        rep.bounds["alphabet"] = "set(a,1) set(a,2) set(b,\"\") remove(a) setBatch{a,b} clear compact close+reopen";
        rep.bounds["history_length"] = "<=" + std::to_string(b.maxLen) + " (all histories; crash points of the last call, earlier ones = shorter history)";
        rep.bounds["continuations"] = "a,b for every history; c (8 further calls) for length<=" + std::to_string(b.cLen) +
                                      "; d (8 further calls crashed at every point) for length<=" + std::to_string(b.dLen);
        rep.bounds["crash_points"] = "every prefix of the recorded file operations x every byte cut of the next write";
        rep.bounds["store_config"] = "enableBackgroundCompaction=false maxLogSizeBytes=64 maxCacheSize=4";
        uint64_t idx = 0;
        bool stop = false;
        forEachHistory(b.maxLen,
                       [&](const std::string &h)
                       {
                         uint64_t my = idx++;
                         if (!sh.mine(my))
                           return true;
                         if (sh.timeUp())
                         {
                           rep.exhaustive = false;
                           rep.notes.push_back("deadline reached: enumeration stopped early");
                           stop = true;
                           return false;
                         }
                         Ctx c;
                         c.env = &env;
                         c.sink = &sink;
                         CaseId hid;
                         hid.hist = h;
                         hid.cont.kind = '*';
                         sh.begin(my, hid.str());
                         Level1 L = recordHistory(c, h);
                         checkRecording(c, L);
                         {
                           // determinism of the recording (justifies sharing crash points with the shorter histories)
                           Ctx c2;
                           c2.env = &env;
                           c2.sink = &sink;
                           Level1 L2 = recordHistory(c2, h);
                           if (!sameLog(L.rec.ev, L2.rec.ev))
                             rep.violation("harness-internal", "nondeterministic-log", hid.str(), "two runs of the same history recorded different file operations");
                         }
                         rep.counters["histories"]++;
                         rep.counters["file_operations_recorded"] += L.rec.mutIdx.size();
                         rep.counters["max_history_file_operations"] = std::max<uint64_t>(rep.counters["max_history_file_operations"], L.rec.mutIdx.size());
                         std::vector<Cont> conts = contList(planFor(b, h.size()));
                         for (auto &cp : L.points)
                         {
                           CaseId pid = hid;
                           pid.m = cp.m;
                           pid.cut = cp.cut;
                           sh.begin(my, pid.str());
                           evalPoint(c, L, cp, conts);
                         }
                         sh.end();
                         rep.sampleEvery(211, hid.str() + " :: [" + histName(h) + "] file-ops=" + std::to_string(L.rec.mutIdx.size()) +
                                                  " crash-points(last call)=" + std::to_string(L.points.size()));
                         return true;
                       });
        (void)stop;
        rep.evaluations = rep.counters["cases"];
        rep.traces = rep.counters["histories"];
        cfs::removeTree(dir);
      });

  vr::Report d(part, "fault_enumeration");
  d.distinct_nontrivial = *distinct.count;
  if (distinct.saturated())
    d.notes.push_back("distinct-case table saturated: distinct_nontrivial is a lower bound");
  d.write(args.out + ".distinct.json");
  cfs::removeTree(root);
  return 0;
}

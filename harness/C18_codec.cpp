// C18 (sequential parts): WebSocket framing round-trips and reassembles under any segmentation.
//
// Families (all bounded-exhaustive, no sampling; bounds are written into the report):
//  frame     (i)   opcode 0x0-0xF x fin x masked(3 keys) x len {0,1,125,126,127,65535,65536} x 2 payload patterns:
//                  serialize == independent RFC 6455 encoding, parse(serialize(f)) == f, consumed == length (also with
//                  trailing bytes), every proper prefix is "incomplete".
//  seg       (ii)  protocol-aware generator (<=3 messages, <=3 fragments, text/binary, ping/pong between fragments, lead
//                  ping, final close, two payload profiles incl. multi-byte code points split across fragments; plus
//                  16/64-bit length sequences) -> independent encoder -> byte stream fed unsplit, at every single cut,
//                  every cut pair (see bounds), byte-at-a-time, to the server (masked) and the client (unmasked, and
//                  with the HTTP 101 response in the same stream).  Oracle: delivered messages / pongs / close frames
//                  equal the generator's list and the whole event log is identical for every segmentation.
//  hostile   (iii) every first byte (fin, RSV, opcode) x mask bit x length codes {0,1,125,126,127} x extended lengths
//                  {0,125,126,max,max+1,3*max,65535,65536,2^31,2^32,2^63-1,2^63,2^64-1} (max=256) x 3 read patterns x 2 fillers.
//  deep / fragflood: never-completable headers and endless never-final fragments fed until the retained bytes exceed
//                  2*max+14 (or the bound is respected).
//  utf8      all byte strings of length 1-2, all strings of length 3-4 over a 27-byte boundary alphabet, single frame and
//                  every 2-fragment split, judged by an independent RFC 3629 validator.
//  gate      all sequences (<=4 quick / <=5 thorough) over {sendText,sendBinary,sendPing,sendClose, peer close/text/ping/
//                  reserved opcode/invalid text}: no data frame on the recorded wire after the endpoint's close frame.
// Oracle for the hostile families: no exception escapes, largest allocation request stays proportional to the bytes
// received and the configured maximum, retained bytes <= 2*max+14, invalid UTF-8 never reaches the text callback.
// The client has no configurable maximum (detected by SFINAE on setMaxFrameSize): it is judged against the library's
// own server default of 16 MiB in the deep/fragflood families.
#include "C18_hostile.hpp"
#include <set>

using namespace hostile;

// ------------------------------------------------------------------ generator for (ii)
struct MsgShape
{
  char type;
  int nfrag;
  int slot[2]; // after fragment i (i < nfrag-1): 0 nothing, 1 ping, 2 pong
};
static std::vector<MsgShape> allShapes()
{
  std::vector<MsgShape> v;
  for (char t : {'t', 'b'})
  {
    v.push_back(MsgShape{t, 1, {0, 0}});
    for (int a = 0; a < 3; ++a)
      v.push_back(MsgShape{t, 2, {a, 0}});
    for (int a = 0; a < 3; ++a)
      for (int b = 0; b < 3; ++b)
        v.push_back(MsgShape{t, 3, {a, b}});
  }
  return v;
}
static Bytes fragPayload(char type, int nfrag, int i, int profile)
{
  static const char *T0[3][3] = {{"a", "", ""}, {"\xc3", "\xa9", ""}, {"\xe2", "\x82", "\xac"}};
  static const char *T1[3][3] = {{"\xf0\x9f\x98\x80", "", ""}, {"\xf0\x9f", "\x98\x80", ""}, {"\xf0\x9f", "", "\x98\x80"}};
  if (type == 't')
    return profile == 0 ? T0[nfrag - 1][i] : T1[nfrag - 1][i];
  if (profile == 0)
  {
    static const unsigned char B0[3][3] = {{0x81, 0, 0}, {0x81, 0x01, 0}, {0xff, 0x00, 0x88}};
    return Bytes(1, char(B0[nfrag - 1][i]));
  }
  Bytes head("\x81\x7e", 2), tail("\x00\xff\x7f", 3);
  if (nfrag == 1)
    return head + tail;
  if (nfrag == 2)
    return i == 0 ? head : tail;
  return i == 0 ? head : i == 1 ? Bytes() : tail;
}
static std::vector<Frame> buildFrames(const std::vector<MsgShape> &msgs, int lead, int closeVar, int profile)
{
  std::vector<Frame> fr;
  if (lead)
    fr.push_back(mk('P', true, ""));
  for (size_t j = 0; j < msgs.size(); ++j)
  {
    const MsgShape &m = msgs[j];
    for (int i = 0; i < m.nfrag; ++i)
    {
      fr.push_back(mk(i == 0 ? m.type : 'c', i == m.nfrag - 1, fragPayload(m.type, m.nfrag, i, profile)));
      if (i < m.nfrag - 1 && m.slot[i] == 1)
        fr.push_back(mk('P', true, Bytes("p") + char('0' + j)));
      else if (i < m.nfrag - 1 && m.slot[i] == 2)
        fr.push_back(mk('O', true, "o"));
    }
  }
  if (closeVar == 1)
    fr.push_back(mk('X', true, ""));
  else if (closeVar == 2)
    fr.push_back(mk('X', true, Bytes("\x03\xe8" "bye", 5)));
  return fr;
}

// ------------------------------------------------------------------ seg units
struct Bounds
{
  size_t allSinglesUpTo, allPairsUpTo, bytewiseUpTo;
};
static Bounds boundsFor(bool thorough)
{
  return thorough ? Bounds{size_t(1) << 20, 400, size_t(1) << 20} : Bounds{4096, 400, 4096};
}
// spec: "-" unsplit, "*" bytewise, "a", "a,b", or a unit: ?A ?S:a-b ?W ?B ?P ?Q
static int evalSeg(Ctx &cx, SeqCase &sc, const std::string &spec)
{
  prepare(cx, sc);
  int v = checkBaseline(cx, sc);
  vr::Report &r = *cx.r;
  size_t n = sc.stream.size();
  auto singles = [&](size_t a, size_t b)
  {
    for (size_t p = std::max<size_t>(a, 1); p < b && p < n; ++p)
    {
      v += checkCuts(cx, sc, &p, 1, false);
      r.counters["seg_single_cut_cases"]++;
    }
  };
  auto pairsOver = [&](const std::vector<size_t> &pos)
  {
    for (size_t i = 0; i < pos.size(); ++i)
      for (size_t j = i + 1; j < pos.size(); ++j)
      {
        size_t c[2] = {pos[i], pos[j]};
        v += checkCuts(cx, sc, c, 2, false);
        r.counters["seg_cut_pair_cases"]++;
      }
  };
  auto bytewise = [&]()
  {
    v += checkCuts(cx, sc, nullptr, 0, true);
    r.counters["seg_bytewise_cases"]++;
  };
  if (sc.base.threw)
  {
    finish(cx);
    return v;
  }
  if (spec == "-")
    ;
  else if (spec == "*")
    bytewise();
  else if (spec[0] != '?')
  {
    size_t c[2];
    size_t k = 0;
    c[k++] = size_t(atoll(spec.c_str()));
    size_t comma = spec.find(',');
    if (comma != std::string::npos)
      c[k++] = size_t(atoll(spec.c_str() + comma + 1));
    v += checkCuts(cx, sc, c, k, false);
  }
  else if (spec[1] == 'A')
  {
    singles(1, n);
    bytewise();
  }
  else if (spec[1] == 'S')
  {
    size_t a = size_t(atoll(spec.c_str() + 3));
    size_t b = size_t(atoll(spec.c_str() + spec.find('-') + 1));
    singles(a, b);
  }
  else if (spec[1] == 'W')
  {
    for (size_t p : windowPositions(sc, 15, 2))
    {
      v += checkCuts(cx, sc, &p, 1, false);
      r.counters["seg_single_cut_cases"]++;
    }
  }
  else if (spec[1] == 'B')
    bytewise();
  else if (spec[1] == 'P')
  {
    std::vector<size_t> pos;
    for (size_t p = 1; p < n; ++p)
      pos.push_back(p);
    pairsOver(pos);
  }
  else if (spec[1] == 'Q')
    pairsOver(windowPositions(sc, 15, 2));
  finish(cx);
  return v;
}

// ------------------------------------------------------------------ hostile sets
static const uint64_t EXT126[] = {0, 125, 126, 256, 257, 768, 65535};
static const uint64_t EXT127[] = {0, 125, 126, 257, 768, 65535, 65536, 1ull << 31, 1ull << 32, (1ull << 63) - 1, 1ull << 63, ~0ull};
static int evalHostileSet(Ctx &cx, char ep, uint8_t b0, bool masked)
{
  int v = 0;
  for (uint8_t filler : {uint8_t(0x00), uint8_t(0x81)})
    for (int mode = 0; mode < 3; ++mode)
    {
      for (int lc : {0, 1, 125})
        v += evalHostile(cx, ep, Hdr{b0, masked, lc, 0}, mode, filler, false);
      for (uint64_t e : EXT126)
        v += evalHostile(cx, ep, Hdr{b0, masked, 126, e}, mode, filler, false);
      for (uint64_t e : EXT127)
        v += evalHostile(cx, ep, Hdr{b0, masked, 127, e}, mode, filler, false);
    }
  return v;
}
static std::vector<Hdr> deepList()
{
  std::vector<Hdr> v;
  for (bool m : {false, true})
  {
    v.push_back(Hdr{0x09, m, 0, 0});   // ping, fin=0
    v.push_back(Hdr{0x08, m, 0, 0});   // close, fin=0
    v.push_back(Hdr{0x0a, m, 0, 0});   // pong, fin=0
    v.push_back(Hdr{0x89, m, 126, 0}); // ping, 16-bit length code
    v.push_back(Hdr{0x88, m, 126, 0});
    v.push_back(Hdr{0x8a, m, 126, 0});
    v.push_back(Hdr{0x89, m, 127, 0}); // ping, 64-bit length code
    v.push_back(Hdr{0x88, m, 127, 0});
    v.push_back(Hdr{0x82, m, 127, 1ull << 31});
    v.push_back(Hdr{0x81, m, 127, 1ull << 32});
    v.push_back(Hdr{0x80, m, 127, 1ull << 31}); // continuation
    v.push_back(Hdr{0x02, m, 127, 1ull << 31}); // first fragment
    v.push_back(Hdr{0x82, m, 127, (1ull << 63) - 1});
    v.push_back(Hdr{0x82, m, 127, 1ull << 63}); // MSB set: invalid per RFC 6455 5.2
    v.push_back(Hdr{0x82, m, 126, 65535});
  }
  return v;
}

// ------------------------------------------------------------------ utf8 sets
static const unsigned char UA[27] = {0x00, 0x61, 0x7f, 0x80, 0x8f, 0x90, 0x9f, 0xa0, 0xbf, 0xc0, 0xc1, 0xc2, 0xdf, 0xe0,
                                     0xe1, 0xec, 0xed, 0xee, 0xef, 0xf0, 0xf1, 0xf3, 0xf4, 0xf5, 0xf7, 0xf8, 0xff};
static int evalUtf8All(Ctx &cx, char ep, const Bytes &s, bool splits)
{
  int v = evalUtf8(cx, ep, s, 0);
  if (splits)
    for (size_t k = 1; k < s.size(); ++k)
      v += evalUtf8(cx, ep, s, k);
  return v;
}
static int evalUtf8Pre(Ctx &cx, char ep, int first) // all strings of length 1-2 starting with `first`
{
  int v = evalUtf8All(cx, ep, Bytes(1, char(first)), false);
  for (int b = 0; b < 256; ++b)
  {
    Bytes s;
    s.push_back(char(first));
    s.push_back(char(b));
    v += evalUtf8All(cx, ep, s, true);
  }
  return v;
}
static int evalUtf8Set(Ctx &cx, char ep, int a, int b) // strings of length 3-4 over UA starting UA[a] UA[b]
{
  int v = 0;
  for (int c = 0; c < 27; ++c)
  {
    Bytes s3;
    s3.push_back(char(UA[a]));
    s3.push_back(char(UA[b]));
    s3.push_back(char(UA[c]));
    v += evalUtf8All(cx, ep, s3, true);
    for (int d = 0; d < 27; ++d)
    {
      Bytes s4 = s3;
      s4.push_back(char(UA[d]));
      v += evalUtf8All(cx, ep, s4, cx.thorough);
    }
  }
  return v;
}

// ------------------------------------------------------------------ gate sets
static const char GOPS[] = "TBPCctpxu";
static int evalGateSet(Ctx &cx, char ep, char first, int maxLen)
{
  int v = 0;
  std::string s(1, first);
  std::function<void()> rec = [&]()
  {
    v += evalGate(cx, ep, s);
    if (int(s.size()) >= maxLen)
      return;
    for (const char *o = GOPS; *o; ++o)
    {
      s.push_back(*o);
      rec();
      s.pop_back();
    }
  };
  rec();
  return v;
}

static int evalFrameSet(Ctx &cx, int op, bool fin, bool masked)
{
  int v = 0;
  for (int key = 0; key < (masked ? 3 : 1); ++key)
    for (size_t len : {size_t(0), size_t(1), size_t(125), size_t(126), size_t(127), size_t(65535), size_t(65536)})
      for (int pat = 0; pat < 2; ++pat)
        v += evalFrame(cx, op, fin, masked, key, len, pat);
  return v;
}

// ------------------------------------------------------------------ case text -> evaluation (replay and units)
static std::map<std::string, std::string> parseKv(const std::string &kase, std::string &family)
{
  std::map<std::string, std::string> m;
  size_t p = kase.find(' ');
  family = kase.substr(0, p);
  while (p != std::string::npos)
  {
    size_t s = p + 1, e = kase.find(' ', s);
    std::string t = kase.substr(s, e == std::string::npos ? std::string::npos : e - s);
    size_t q = t.find('=');
    if (q != std::string::npos)
      m[t.substr(0, q)] = t.substr(q + 1);
    p = e;
  }
  return m;
}
static int evalCase(Ctx &cx, const std::string &kase)
{
  std::string fam;
  auto m = parseKv(kase, fam);
  auto I = [&](const char *k) { return m.count(k) ? strtoull(m[k].c_str(), nullptr, 10) : 0ull; };
  char ep = m.count("ep") && !m["ep"].empty() ? m["ep"][0] : 's';
  if (fam == "frame")
  {
    int v = evalFrame(cx, int(I("op")), I("fin"), I("m"), int(I("key")), size_t(I("len")), int(I("pat")));
    return v;
  }
  if (fam == "frameset")
    return evalFrameSet(cx, int(I("op")), I("fin"), I("m"));
  if (fam == "seg")
  {
    SeqCase sc;
    sc.ep = ep;
    sc.pre = I("pre");
    sc.desc = m["fr"];
    if (!parseDesc(sc.desc, sc.frames))
    {
      fprintf(stderr, "bad frame descriptor\n");
      return -1;
    }
    return evalSeg(cx, sc, m["cuts"].empty() ? "-" : m["cuts"]);
  }
  if (fam == "hostile" || fam == "deep")
    return evalHostile(cx, ep, Hdr{uint8_t(I("b0")), bool(I("m")), int(I("lc")), I("ext")}, int(I("mode")), uint8_t(I("fill")), fam == "deep");
  if (fam == "hostileset")
    return evalHostileSet(cx, ep, uint8_t(I("b0")), I("m"));
  if (fam == "fragflood")
    return evalFragFlood(cx, ep, int(I("div")), m["type"].empty() ? 't' : m["type"][0]);
  if (fam == "utf8")
    return evalUtf8(cx, ep, vr::unhex(m["bytes"]), size_t(I("split")));
  if (fam == "utf8pre")
    return evalUtf8Pre(cx, ep, int(I("first")));
  if (fam == "utf8set")
    return evalUtf8Set(cx, ep, int(I("a")), int(I("b")));
  if (fam == "gate")
    return evalGate(cx, ep, m["ops"]);
  if (fam == "gateset")
    return evalGateSet(cx, ep, m["first"].empty() ? 'T' : m["first"][0], int(I("len")));
  fprintf(stderr, "unknown case family '%s'\n", fam.c_str());
  return -1;
}

// ------------------------------------------------------------------ enumeration
static void enumerate(const vr::Shard &sh, vr::Report &r, const vr::Args &args)
{
  Ctx cx;
  cx.r = &r;
  cx.thorough = args.thorough();
  cx.S.init();
  cx.C.init();
  std::string only = args.get("only");
  const bool pairsPart = args.get("mode") == "pairs"; // plain -O2 part: only the big cut-pair product of family seg
  Bounds B = boundsFor(cx.thorough);
  r.rule = "frame: RFC-valid frame (round-trip demanded); seg: segmentation with >=1 cut of a stream carrying >=1 message or ping; hostile: RSV=0, known opcode, "
           "extended length code; utf8: text containing a byte >= 0x80; gate: sequence with a close frame sent and a later/earlier app send";
  r.bounds["frame"] = "opcode 0-15 x fin x masked(3 keys)/unmasked x len {0,1,125,126,127,65535,65536} x 2 payload patterns; truncations: " +
                      std::string(cx.thorough ? "all prefixes" : "all prefixes if <=300 bytes else first/last 40");
  r.bounds["seg.generator"] = "<=3 messages x {text,binary} x <=3 fragments x {none,ping,pong} after each non-final fragment x lead ping {0,1} x close {none,empty,1000+reason} x 2 payload profiles" +
                              std::string(cx.thorough ? "" : " (quick: 3-message sequences only with lead=0, profile=0)");
  r.bounds["seg.cuts"] = "unsplit, every single cut, byte-at-a-time; every cut pair for <=2 messages" +
                         std::string(cx.thorough ? " and for 3 messages with lead=0, profile=0" : "") + "; client+HTTP-101-prefix streams: <=1 message, singles+bytewise" +
                         (cx.thorough ? "+pairs" : "");
  r.bounds["seg.lengths"] = "4 placements x len {125,126,127,65535,65536}: single cuts " + std::string(cx.thorough ? "all" : "all if stream<=4096 else within 15 bytes after a frame start / 2 before its end") +
                            ", pairs over those window positions, bytewise " + (cx.thorough ? "always" : "if stream<=4096");
  r.bounds["hostile"] = "byte0 0-255 x mask x lc {0,1,125} + lc126 x {0,125,126,256,257,768,65535} + lc127 x {0,125,126,257,768,65535,65536,2^31,2^32,2^63-1,2^63,2^64-1} x 3 read modes x filler {00,81}; max=256, 832 filler bytes in 128-byte reads";
  r.bounds["utf8"] = "all strings len 1-2 (256-byte alphabet), len 3-4 over 27 boundary bytes; all 2-fragment splits" + std::string(cx.thorough ? "" : " (len 4: single frame only)");
  r.bounds["gate"] = std::string("all op sequences of length <= ") + (cx.thorough ? "5" : "4") + " over TBPC (app) ctpxu (peer)";
  r.notes.push_back(std::string("client configurable maximum: ") + (cx.C.hasConfigurableMax() ? "setMaxFrameSize present (256 used)" : "none - judged against the library's server default 16 MiB in deep/fragflood"));

  uint64_t idx = 0;
  bool timeUp = false;
  std::set<std::string> distinctDesc;
  auto unit = [&](const std::function<std::string()> &mkCase)
  {
    uint64_t i = idx++;
    if (timeUp || !sh.mine(i))
      return;
    if (sh.timeUp())
    {
      timeUp = true;
      r.exhaustive = false;
      r.notes.push_back("deadline reached: enumeration stopped early");
      return;
    }
    std::string kase = mkCase();
    sh.begin(i, kase);
    int v = evalCase(cx, kase);
    if (v < 0)
      r.violation("harness-internal", "bad-unit", kase, "unit could not be evaluated");
    sh.end();
    r.counters["units"]++;
    r.sampleEvery(97, "unit " + kase + " => " + (v < 0 ? "not evaluated" : "evaluated (result code " + std::to_string(v) + ")"));
  };
  auto want = [&](const char *f) { return (only.empty() || only == f) && (!pairsPart || std::string(f) == "seg"); };
  if (pairsPart)
    r.notes.push_back("this part (no sanitizers, -O2) runs the cut-pair product for sequences of >=2 messages and, in the quick tier only, the single-cut/bytewise units of 3-message sequences; every other family and all remaining single cuts, byte-at-a-time runs and the pairs of <=1-message sequences run in the ASan+UBSan part C18_codec");

  // (i)
  if (want("frame"))
    for (int op = 0; op < 16; ++op)
      for (int fin = 0; fin < 2; ++fin)
        for (int m = 0; m < 2; ++m)
          unit([&] { return "frameset op=" + std::to_string(op) + " fin=" + std::to_string(fin) + " m=" + std::to_string(m); });

  // (iii) first: cheap and where the defects are
  if (want("hostile"))
    for (char ep : {'s', 'c'})
      for (int b0 = 0; b0 < 256; ++b0)
        for (int m = 0; m < 2; ++m)
          unit([&] { return std::string("hostileset ep=") + ep + " b0=" + std::to_string(b0) + " m=" + std::to_string(m); });
  if (want("deep"))
  {
    for (char ep : {'s', 'c'})
      for (const Hdr &h : deepList())
        unit(
          [&]
          {
            return std::string("deep ep=") + ep + " b0=" + std::to_string(h.b0) + " m=" + (h.masked ? "1" : "0") + " lc=" + std::to_string(h.lc) + " ext=" + std::to_string(h.ext) +
                   " mode=0 fill=0";
          });
    for (char ep : {'s', 'c'})
      for (int div : {1, 2})
        for (char t : {'t', 'b'})
          unit([&] { return std::string("fragflood ep=") + ep + " div=" + std::to_string(div) + " type=" + t; });
  }
  if (want("gate"))
    for (char ep : {'s', 'c'})
      for (const char *o = GOPS; *o; ++o)
        unit([&] { return std::string("gateset ep=") + ep + " first=" + *o + " len=" + (cx.thorough ? "5" : "4"); });
  if (want("utf8"))
    for (char ep : {'s', 'c'})
    {
      for (int f = 0; f < 256; ++f)
        unit([&] { return std::string("utf8pre ep=") + ep + " first=" + std::to_string(f); });
      for (int a = 0; a < 27; ++a)
        for (int b = 0; b < 27; ++b)
          unit([&] { return std::string("utf8set ep=") + ep + " a=" + std::to_string(a) + " b=" + std::to_string(b); });
    }

  // (ii) length-encoding sequences
  if (want("seglen"))
    for (size_t L : {size_t(125), size_t(126), size_t(127), size_t(65535), size_t(65536)})
      for (int placement = 0; placement < 4; ++placement)
      {
        std::vector<Frame> fr;
        switch (placement)
        {
        case 0: fr = {mk('P', true, ""), mk('t', true, pat(L)), mk('t', true, "ok")}; break;
        case 1: fr = {mk('b', false, pat(L)), mk('P', true, "pp"), mk('c', true, "\x81")}; break;
        case 2: fr = {mk('t', false, "a"), mk('c', true, pat(L)), mk('X', true, Bytes("\x03\xe8", 2))}; break;
        case 3: fr = {mk('b', true, pat(L)), mk('P', true, pat(125)), mk('t', true, "ok")}; break;
        }
        std::string desc = describe(fr);
        for (char ep : {'s', 'c'})
        {
          std::string head = std::string("seg ep=") + ep + " pre=0 fr=" + desc + " cuts=";
          size_t n = L + 64; // approximate stream length, only used to lay out blocks
          if (n <= B.allSinglesUpTo)
            for (size_t a = 0; a < n; a += 4096)
              unit([&] { return head + "?S:" + std::to_string(a) + "-" + std::to_string(a + 4096); });
          else
            unit([&] { return head + "?W"; });
          if (n <= B.bytewiseUpTo)
            unit([&] { return head + "?B"; });
          unit([&] { return head + "?Q"; });
        }
      }

  // (ii) structural sequences
  if (want("seg"))
  {
    std::vector<MsgShape> shapes = allShapes();
    size_t S = shapes.size();
    for (int nmsg = 0; nmsg <= 3; ++nmsg)
    {
      size_t combos = 1;
      for (int k = 0; k < nmsg; ++k)
        combos *= S;
      for (size_t c = 0; c < combos; ++c)
      {
        std::vector<MsgShape> msgs;
        size_t x = c;
        for (int k = 0; k < nmsg; ++k)
        {
          msgs.push_back(shapes[x % S]);
          x /= S;
        }
        for (int lead = 0; lead < 2; ++lead)
          for (int closeVar = 0; closeVar < 3; ++closeVar)
            for (int profile = 0; profile < (nmsg ? 2 : 1); ++profile)
            {
              if (nmsg == 0 && !lead && !closeVar)
                continue;
              bool reduced = nmsg == 3 && !(lead == 0 && profile == 0);
              if (reduced && !cx.thorough)
                continue;
              bool pairs = nmsg <= 2 || (cx.thorough && !reduced);
              std::string desc; // built lazily, once
              auto head = [&](char ep, int pre)
              {
                if (desc.empty())
                  desc = describe(buildFrames(msgs, lead, closeVar, profile));
                return std::string("seg ep=") + ep + " pre=" + (pre ? "1" : "0") + " fr=" + desc + " cuts=";
              };
              for (char ep : {'s', 'c'})
              {
                // quick tier: the 3-message singles/bytewise units also go to the fast part (thorough keeps them under ASan)
                if (pairsPart == (!cx.thorough && nmsg == 3))
                  unit([&] { return head(ep, 0) + "?A"; });
                if (pairs && (pairsPart == (nmsg >= 2)))
                  unit([&] { return head(ep, 0) + "?P"; });
              }
              if (nmsg <= 1 && !pairsPart)
              {
                unit([&] { return head('c', 1) + "?A"; });
                if (cx.thorough)
                  unit([&] { return head('c', 1) + "?P"; });
              }
            }
      }
    }
  }
  cx.S.closeCase();
}

int main(int argc, char **argv)
{
  vr::Args args(argc, argv);
  if (!args.replay.empty())
  {
    std::string kase = vr::readFile(args.replay);
    while (!kase.empty() && (kase.back() == '\n' || kase.back() == '\r'))
      kase.pop_back();
    // "frame ... trunc=k" cases replay the whole frame case
    vr::Report r("C18_codec/replay");
    Ctx cx;
    cx.r = &r;
    cx.thorough = args.thorough();
    cx.S.init();
    cx.C.init();
    printf("replaying: %s\n", kase.substr(0, 300).c_str());
    int v = evalCase(cx, kase);
    for (const vr::Violation &x : r.violations)
      printf("VIOLATION clause=%s sig=%s\n  case: %s\n  %s\n", x.clause.c_str(), x.sig.c_str(), x.kase.substr(0, 300).c_str(), x.detail.substr(0, 600).c_str());
    printf("evaluations=%llu violations=%llu\n", (unsigned long long)r.evaluations, (unsigned long long)r.violation_total);
    cx.C.destroy();
    cx.S.destroy();
    return v < 0 ? 2 : (r.violation_total ? 1 : 0);
  }
  double deadline = double(args.getInt("deadline", 0));
  vr::run_sharded(args, args.get("mode") == "pairs" ? "C18_seg_pairs" : "C18_codec", "exploration", 240.0, deadline > 30 ? deadline - 15 : deadline,
                  [&](const vr::Shard &sh, vr::Report &r) { enumerate(sh, r, args); });
  return 0;
}

// C10 (part 1): iora::core::BlockingQueue under every interleaving within the preemption bound.
//
// A scenario is a small multi-threaded program over ONE real BlockingQueue<int>: producers,
// consumers and optionally a closer.  All scheduling points are the queue's own pthread mutex /
// condition-variable operations (hooked by rt/mc.cpp); timed waits run on the virtual clock.
//
// Oracle clauses (statement of C10):
//   exactly-once      multiset(taken by consumers + drained at the end) == multiset(successfully put)
//   producer-order    items of one producer are taken in the order they were put
//   capacity          queue never holds more than its capacity (sampled after every operation)
//   close-refuses     a put that *starts* after close() returned is refused
//   close-keeps-items items queued before close remain retrievable (they are drained at the end)
//   no-deadlock       every thread finishes (scenarios are built so that this must be possible:
//                     either balanced blocking operations or a closer that eventually releases all)
#include "mc.h"
#include <iora/core/blocking_queue.hpp>

#include <map>
#include <set>
#include <sstream>
#include <thread>

using iora::core::BlockingQueue;

namespace
{
struct Op
{
  char kind; // q queue, t tryQueue, T tryQueue(timeout), d dequeue, D dequeue(timeout), y tryDequeue, x close, s size
};
struct ThreadSpec
{
  std::string name;
  std::string ops;
};
struct Scn
{
  std::string name;
  size_t cap;
  std::vector<ThreadSpec> threads;
};

struct PutRec
{
  int item;
  bool ok;
  uint64_t startStep;
};
struct TakeRec
{
  bool ok;
  int item;
};

const char *opLabel(char k)
{
  switch (k)
  {
  case 'Q':
    return "queue(move)";
  case 'u':
    return "tryQueue(move)";
  case 'U':
    return "tryQueue(move,timeout)";
  case 'q':
    return "queue";
  case 't':
    return "tryQueue";
  case 'T':
    return "tryQueueTimed";
  case 'd':
    return "dequeue";
  case 'D':
    return "dequeueTimed";
  case 'y':
    return "tryDequeue";
  case 'x':
    return "close";
  case 's':
    return "size";
  }
  return "?";
}

void runScenario(const Scn &sc)
{
  mc_label("main:setup");
  auto *q = new BlockingQueue<int>(sc.cap);
  size_t n = sc.threads.size();
  std::vector<std::vector<PutRec>> puts(n);
  std::vector<std::vector<TakeRec>> takes(n);
  uint64_t closeReturned = 0; // step at which close() returned (0 = never)
  bool capViolated = false;
  size_t capSeen = 0;
  auto sampleCap = [&]()
  {
    size_t s = q->_queue.size(); // -fno-access-control; execution is serialised by the scheduler
    if (s > sc.cap)
    {
      capViolated = true;
      capSeen = s;
    }
  };
  std::vector<std::thread> th;
  for (size_t ti = 0; ti < n; ++ti)
  {
    th.emplace_back(
      [&, ti]()
      {
        const ThreadSpec &ts = sc.threads[ti];
        for (size_t oi = 0; oi < ts.ops.size(); ++oi)
        {
          char k = ts.ops[oi];
          std::string lab = ts.name + ":" + opLabel(k);
          mc_label(lab.c_str());
          int item = int(ti + 1) * 100 + int(oi);
          switch (k)
          {
          case 'q':
          case 't':
          case 'T':
          case 'Q': // the rvalue overloads are separate code in blocking_queue.hpp
          case 'u':
          case 'U':
          {
            uint64_t st = mc_step();
            int moved = item;
            bool ok = k == 'q'   ? q->queue(item)
                      : k == 't' ? q->tryQueue(item)
                      : k == 'T' ? q->tryQueue(item, std::chrono::milliseconds(10))
                      : k == 'Q' ? q->queue(std::move(moved))
                      : k == 'u' ? q->tryQueue(std::move(moved))
                                 : q->tryQueue(std::move(moved), std::chrono::milliseconds(10));
            puts[ti].push_back(PutRec{item, ok, st});
            mc_obs("%s %s(%d)=%d", ts.name.c_str(), opLabel(k), item, int(ok));
            break;
          }
          case 'd':
          case 'D':
          case 'y':
          {
            int out = -1;
            bool ok = k == 'd' ? q->dequeue(out) : k == 'D' ? q->dequeue(out, std::chrono::milliseconds(10)) : q->tryDequeue(out);
            takes[ti].push_back(TakeRec{ok, out});
            mc_obs("%s %s=%d:%d", ts.name.c_str(), opLabel(k), int(ok), ok ? out : -1);
            break;
          }
          case 'x':
            q->close();
            if (!closeReturned)
              closeReturned = mc_step();
            mc_obs("%s close", ts.name.c_str());
            break;
          case 's':
          {
            size_t s = q->size();
            if (s > sc.cap)
            {
              capViolated = true;
              capSeen = s;
            }
            break;
          }
          }
          sampleCap();
        }
        mc_label((ts.name + ":done").c_str());
      });
  }
  mc_label("main:join");
  for (auto &t : th)
    t.join();
  mc_label("main:check");

  // ---- oracle ----
  std::vector<int> drained;
  {
    int out;
    while (q->tryDequeue(out))
      drained.push_back(out);
  }
  std::multiset<int> putOk, taken;
  std::map<int, std::pair<int, int>> origin; // item -> (producer, seq)
  for (size_t ti = 0; ti < n; ++ti)
  {
    int seq = 0;
    for (auto &p : puts[ti])
    {
      if (p.ok)
      {
        putOk.insert(p.item);
        origin[p.item] = {int(ti), seq++};
      }
      if (p.ok && closeReturned && p.startStep > closeReturned)
        mc_violation("close-refuses", "put-accepted-after-close", "item " + std::to_string(p.item) + " accepted although the put started after close() returned");
    }
  }
  std::ostringstream d;
  // per-consumer order, then drained items last
  std::map<int, int> lastSeqGlobalDrain;
  for (size_t ti = 0; ti < n; ++ti)
  {
    std::map<int, int> lastSeq;
    for (auto &t : takes[ti])
    {
      if (!t.ok)
        continue;
      taken.insert(t.item);
      auto it = origin.find(t.item);
      if (it == origin.end())
        mc_violation("exactly-once", "foreign-item", "consumer " + sc.threads[ti].name + " took item " + std::to_string(t.item) + " that was never successfully put");
      int prod = it->second.first, seq = it->second.second;
      if (lastSeq.count(prod) && lastSeq[prod] > seq)
        mc_violation("producer-order", "reordered", "consumer " + sc.threads[ti].name + " took item " + std::to_string(t.item) + " after a later item of the same producer");
      lastSeq[prod] = seq;
      if (!lastSeqGlobalDrain.count(prod) || lastSeqGlobalDrain[prod] < seq)
        lastSeqGlobalDrain[prod] = seq;
    }
  }
  {
    std::map<int, int> lastSeq = lastSeqGlobalDrain;
    for (int it : drained)
    {
      taken.insert(it);
      auto o = origin.find(it);
      if (o == origin.end())
        mc_violation("exactly-once", "foreign-item", "drained item " + std::to_string(it) + " was never successfully put");
      int prod = o->second.first, seq = o->second.second;
      if (lastSeq.count(prod) && lastSeq[prod] > seq)
        mc_violation("producer-order", "reordered-drain", "item " + std::to_string(it) + " still queued although a later item of its producer was already taken");
      lastSeq[prod] = seq;
    }
  }
  if (taken != putOk)
  {
    std::string a, b;
    for (int x : putOk)
      a += std::to_string(x) + " ";
    for (int x : taken)
      b += std::to_string(x) + " ";
    bool dup = false;
    for (int x : taken)
      if (taken.count(x) > 1)
        dup = true;
    mc_violation("exactly-once", dup ? "duplicated" : (taken.size() < putOk.size() ? "lost" : "mismatch"), "put={" + a + "} taken={" + b + "}");
  }
  if (capViolated)
    mc_violation("capacity", "size-exceeds-capacity", "observed size " + std::to_string(capSeen) + " > capacity " + std::to_string(sc.cap));
  mc_obs("drained=%zu", drained.size());
  delete q;
}

std::vector<Scn> scenarios()
{
  return {
    // minimal lost-wake-up shapes
    {"c_close", 1, {{"C", "d"}, {"X", "x"}}},
    {"p_full_close", 1, {{"P", "qq"}, {"X", "x"}}},
    // FIFO / exactly-once with blocking on both sides
    {"p2_c2_cap1", 1, {{"P", "qq"}, {"C", "dd"}}},
    {"p3_c3_cap2", 2, {{"P", "qqq"}, {"C", "ddd"}}},
    {"2p_c", 1, {{"P1", "q"}, {"P2", "q"}, {"C", "dd"}}},
    {"p_2c", 1, {{"P", "qq"}, {"C1", "d"}, {"C2", "d"}}},
    {"2p_2c", 1, {{"P1", "q"}, {"P2", "q"}, {"C1", "d"}, {"C2", "d"}}},
    // close racing everything
    {"p_c_close", 1, {{"P", "qq"}, {"C", "dd"}, {"X", "x"}}},
    {"2c_close", 1, {{"C1", "d"}, {"C2", "d"}, {"X", "x"}}},
    {"close_then_put", 1, {{"P", "tq"}, {"X", "x"}, {"C", "y"}}},
    // non-blocking and timed variants
    {"try_mix", 2, {{"P", "ttt"}, {"C", "yd"}}},
    {"timed", 1, {{"P", "TT"}, {"C", "DD"}}},
    {"timed_close", 1, {{"P", "qT"}, {"C", "D"}, {"X", "x"}}},
    {"size_probe", 1, {{"P", "qq"}, {"C", "dd"}, {"S", "ss"}}},
    // every taking operation must wake a blocked producer, every putting operation a blocked consumer
    {"trydeq_wakes_producer", 1, {{"P", "qq"}, {"C", "yd"}}},
    {"timeddeq_wakes_producer", 1, {{"P", "qq"}, {"C", "Dd"}}},
    {"tryput_wakes_consumer", 1, {{"P", "tq"}, {"C", "dd"}}},
    {"timedput_wakes_consumer", 1, {{"P", "Tq"}, {"C", "dd"}}},
    {"mv_tryput_wakes_consumer", 1, {{"P", "uQ"}, {"C", "dd"}}},
    {"mv_timedput_wakes_consumer", 1, {{"P", "UQ"}, {"C", "dd"}}},
    // the same shapes through the rvalue (move) overloads
    {"mv_p_full_close", 1, {{"P", "QQ"}, {"X", "x"}}},
    {"mv_p2_c2_cap1", 1, {{"P", "QQ"}, {"C", "dd"}}},
    {"mv_2p_2c", 1, {{"P1", "Q"}, {"P2", "Q"}, {"C1", "d"}, {"C2", "d"}}},
    {"mv_p_c_close", 1, {{"P", "QQ"}, {"C", "dd"}, {"X", "x"}}},
    {"mv_try_mix", 2, {{"P", "uuu"}, {"C", "yd"}}},
    {"mv_timed", 1, {{"P", "UU"}, {"C", "DD"}}},
    {"mv_timed_close", 1, {{"P", "QU"}, {"C", "D"}, {"X", "x"}}},
  };
}
} // namespace

int main(int argc, char **argv)
{
  std::vector<McScenario> v;
  for (const Scn &sc : scenarios())
  {
    McScenario m;
    m.name = sc.name;
    m.body = [sc]() { runScenario(sc); };
    bool timed = sc.name.find("timed") != std::string::npos;
    bool big = sc.threads.size() >= 4; // four-thread programs: one preemption less
    m.quick.P = big ? 1 : 2;
    m.quick.T = timed ? 1 : 0;
    m.quick.E = 0;
    m.thorough.P = big ? 2 : 3;
    m.thorough.T = timed ? 2 : 0;
    m.thorough.E = 1;
    m.spurious_wakeups = true; // only reachable in thorough (E>=1): all waits are predicate waits
    m.horizon_s = 60;
    v.push_back(m);
  }
  return mc_main(argc, argv, "C10_blocking_queue", v);
}

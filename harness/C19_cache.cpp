// C19 part B — DNS cache histories: explicit-state breadth-first search over operation histories of the real
// iora::network::dns::DnsCache under *virtual* steady time, against a reference model with the same clock.
//
// state      = an operation history replayed on a FRESH DnsCache (live objects do not copy)
// canonical  = reference strict map + the implementation's own table read through -fno-access-control (key, payload
//              id, negative flag, remaining lifetime), each table entry annotated with the reference's remaining
//              lifetime of that same payload (a hit can only serve a payload that is physically in the table, so
//              this is all of the past that a future verdict can depend on); lifetimes are relative to the virtual
//              clock (both sides are invariant under clock translation: "contents + clock" reduced to "contents
//              relative to the clock").  The verdict itself is computed from the full history of the trace.
// oracle     = (statement) a hit is served only for the same question (name compared case-insensitively, same type,
//              same class) and never at or after insert time + smallest record TTL (or the negative TTL).
//              A miss while the reference says "still valid" is not a violation (counted only).
//
// Time: std::chrono::steady_clock::now() reaches clock_gettime(CLOCK_MONOTONIC) which this executable defines
// itself (link-time interposition).  Virtual time starts at 10^9 s so that the purge thread's 5 s timed wait lies in
// the real future: it stays idle (it only frees memory) and `advance` is exact.
#include <cstdint>
#include <sys/syscall.h>
#include <time.h>
#include <unistd.h>

static volatile bool g_virtual = false;
static volatile int64_t g_virtual_ns = 0; // offset from the base
static const int64_t kBaseNs = 1000000000LL * 1000000000LL;
extern "C" int clock_gettime(clockid_t id, struct timespec *ts) noexcept
{
  if (g_virtual && id == CLOCK_MONOTONIC)
  {
    int64_t t = kBaseNs + g_virtual_ns;
    ts->tv_sec = t / 1000000000LL;
    ts->tv_nsec = t % 1000000000LL;
    return 0;
  }
  return int(syscall(SYS_clock_gettime, id, ts));
}

#include "bexh.hpp"
#include "C19_dnsgen.hpp"
#include "iora/network/dns/dns_cache.hpp"
#include "iora/network/dns/dns_message.hpp"
#include <algorithm>
#include <deque>
#include <map>
#include <set>

using namespace c19;
namespace dns = iora::network::dns;

// ------------------------------------------------------------------------------------------------------------
// Alphabet
// ------------------------------------------------------------------------------------------------------------
enum QId
{
  Q_LOWER = 0, // ("a.b", A, IN)
  Q_UPPER,     // ("A.B", A, IN)       same question, other case
  Q_TYPE,      // ("a.b", AAAA, IN)    other type
  Q_CLASS,     // ("a.b", A, CH)       other class
  Q_N
};
static const char *kQName[Q_N] = {"q", "Q-upper", "q-other-type", "q-other-class"};
static int canonKey(int q) { return q == Q_UPPER ? Q_LOWER : q; } // reference: case-insensitive name, type, class
static dns::DnsQuestion question(int q)
{
  switch (q)
  {
  case Q_LOWER: return dns::DnsQuestion("a.b", dns::DnsType::A, dns::DnsClass::IN);
  case Q_UPPER: return dns::DnsQuestion("A.B", dns::DnsType::A, dns::DnsClass::IN);
  case Q_TYPE: return dns::DnsQuestion("a.b", dns::DnsType::AAAA, dns::DnsClass::IN);
  default: return dns::DnsQuestion("a.b", dns::DnsType::A, dns::DnsClass::CH);
  }
}

enum OpKind
{
  OP_PUT,
  OP_PUTNEG,     // putNegative(question, result, ttl, msg)
  OP_PUTNEG_SOA, // putNegative(question, result, msg): TTL from the SOA in the result
  OP_GET,
  OP_REMOVE,
  OP_CLEAR,
  OP_ADVANCE
};
struct Op
{
  OpKind kind;
  int q = 0;
  uint32_t ttl = 0;      // the TTL the reference uses (smallest record TTL / negative TTL)
  int place = 0;         // PUT: section holding the smallest TTL (0 answer, 1 authority, 2 additional)
  uint32_t soaTtl = 0, soaMin = 0;
  std::string name;      // stable text (trace format, signatures)
  dns::DnsResult result; // payload (built once through DnsMessage::parse of a generated response)
  uint16_t content = 0;  // payload id == result.header.id
};
static std::vector<Op> g_ops;

static dns::DnsResult parseWire(MsgSpec m)
{
  Builder b;
  b.build(m);
  return dns::DnsMessage::parse(reinterpret_cast<const uint8_t *>(b.b.wire.data()), b.b.wire.size());
}

static void buildAlphabet()
{
  static const char *place[3] = {"answer", "authority", "additional"};
  uint16_t next = 1;
  auto addPut = [&](int q, uint32_t ttl, int pl)
  {
    Op o;
    o.kind = OP_PUT;
    o.q = q;
    o.ttl = ttl;
    o.place = pl;
    o.name = std::string("put(") + kQName[q] + ",min-ttl=" + std::to_string(ttl) + "@" + place[pl] + ")";
    o.content = next++;
    MsgSpec m;
    m.id = o.content;
    dns::DnsQuestion qq = question(q);
    m.qname = nameAB();
    m.qtype = uint16_t(qq.qtype);
    m.qclass = uint16_t(qq.qclass);
    for (int s = 0; s < 3; ++s)
    {
      RecSpec r;
      r.section = s;
      r.owner = nameAB();
      r.type = s == 1 ? T_NS : (q == Q_TYPE ? T_AAAA : T_A);
      r.cls = uint16_t(qq.qclass);
      r.ttl = s == pl ? ttl : ttl + 1;
      r.addr = r.type == T_AAAA ? Bytes(15, '\0') + Bytes(1, '\1') : Bytes("\x0a\x00\x00\x01", 4);
      r.n1 = nameB();
      m.recs.push_back(r);
    }
    o.result = parseWire(m);
    g_ops.push_back(o);
  };
  auto addNeg = [&](int q, uint32_t ttl)
  {
    Op o;
    o.kind = OP_PUTNEG;
    o.q = q;
    o.ttl = ttl;
    o.name = std::string("putNegative(") + kQName[q] + ",ttl=" + std::to_string(ttl) + ")";
    o.content = next++;
    MsgSpec m;
    m.id = o.content;
    m.flags = 0x8183; // NXDOMAIN
    m.qname = nameAB();
    o.result = parseWire(m);
    g_ops.push_back(o);
  };
  auto addNegSoa = [&](int q, uint32_t soaTtl, uint32_t soaMin)
  {
    Op o;
    o.kind = OP_PUTNEG_SOA;
    o.q = q;
    o.soaTtl = soaTtl;
    o.soaMin = soaMin;
    o.ttl = std::min(soaTtl, soaMin); // RFC 2308 s.5: the lesser of the SOA TTL and the SOA MINIMUM field
    o.name = std::string("putNegativeSOA(") + kQName[q] + ",soa-ttl=" + std::to_string(soaTtl) + ",soa-minimum=" + std::to_string(soaMin) + ")";
    o.content = next++;
    MsgSpec m;
    m.id = o.content;
    m.flags = 0x8183;
    m.qname = nameAB();
    RecSpec r;
    r.section = 1;
    r.owner = nameB();
    r.type = T_SOA;
    r.ttl = soaTtl;
    r.n1 = nameAB();
    r.n2 = nameAB();
    r.u32[0] = 1;
    r.u32[1] = 2;
    r.u32[2] = 3;
    r.u32[3] = 4;
    r.u32[4] = soaMin;
    m.recs.push_back(r);
    o.result = parseWire(m);
    g_ops.push_back(o);
  };
  auto simple = [&](OpKind k, int q, const std::string &name)
  {
    Op o;
    o.kind = k;
    o.q = q;
    o.name = name;
    g_ops.push_back(o);
  };
  // simplest first
  simple(OP_GET, Q_LOWER, "get(q)");
  simple(OP_ADVANCE, 0, "advance(1s)");
  g_ops.back().ttl = 1000;
  for (uint32_t t : {0u, 1u, 2u})
    addPut(Q_LOWER, t, 0);
  for (uint32_t t : {0u, 1u})
    addNeg(Q_LOWER, t);
  simple(OP_GET, Q_UPPER, "get(Q-upper)");
  simple(OP_GET, Q_TYPE, "get(q-other-type)");
  simple(OP_GET, Q_CLASS, "get(q-other-class)");
  simple(OP_REMOVE, Q_LOWER, "remove(q)");
  simple(OP_CLEAR, 0, "clear()");
  addNegSoa(Q_LOWER, 5, 1);
  addNegSoa(Q_LOWER, 1, 5);
  addNegSoa(Q_LOWER, 5, 0);
  for (int pl : {1, 2})
    for (uint32_t t : {0u, 1u, 2u})
      addPut(Q_LOWER, t, pl);
  addPut(Q_UPPER, 1, 0);
  addPut(Q_TYPE, 1, 0);
  addPut(Q_TYPE, 2, 0);
  addPut(Q_CLASS, 1, 0);
  addNeg(Q_TYPE, 1);
  simple(OP_REMOVE, Q_UPPER, "remove(Q-upper)");
  simple(OP_REMOVE, Q_TYPE, "remove(q-other-type)");
  simple(OP_ADVANCE, 0, "advance(500ms)");
  g_ops.back().ttl = 500;
  addPut(Q_CLASS, 2, 2);
  addNeg(Q_CLASS, 1);
  simple(OP_REMOVE, Q_CLASS, "remove(q-other-class)");
}

// ------------------------------------------------------------------------------------------------------------
// Reference model
// ------------------------------------------------------------------------------------------------------------
struct Payload
{
  int key;          // canonical question
  uint16_t content; // payload id
  int64_t expiry;   // virtual ns: insert + ttl
  bool operator<(const Payload &o) const
  {
    return key != o.key ? key < o.key : content != o.content ? content < o.content : expiry < o.expiry;
  }
};
struct Ref
{
  std::map<int, Payload> strict; // what a textbook cache would hold (latest put; remove / clear erase)
  std::set<Payload> everPut;     // every payload put so far whose TTL has not elapsed (statement-level legality)
  void prune(int64_t now)
  {
    for (auto it = strict.begin(); it != strict.end();)
      it = it->second.expiry <= now ? strict.erase(it) : std::next(it);
    for (auto it = everPut.begin(); it != everPut.end();)
      it = it->expiry <= now ? everPut.erase(it) : std::next(it);
  }
};

struct Verdict
{
  std::string clause, sig, detail;
};

struct StepLog
{
  bool isGet = false, hit = false;
  uint16_t content = 0;
};

// Executes one op on both sides; fills v when the statement is violated.
static void step(dns::DnsCache &cache, Ref &ref, const Op &op, Verdict &v, StepLog &log, vr::Report *rep, const std::vector<const Op *> &histOps)
{
  int64_t now = g_virtual_ns;
  ref.prune(now);
  switch (op.kind)
  {
  case OP_PUT:
    cache.put(question(op.q), op.result);
    break;
  case OP_PUTNEG:
    cache.putNegative(question(op.q), op.result, op.ttl, "NXDOMAIN");
    break;
  case OP_PUTNEG_SOA:
    cache.putNegative(question(op.q), op.result, "NXDOMAIN");
    break;
  case OP_GET:
  {
    dns::DnsResult out;
    bool hit = cache.get(question(op.q), out);
    log.isGet = true;
    log.hit = hit;
    int key = canonKey(op.q);
    auto st = ref.strict.find(key);
    bool strictValid = st != ref.strict.end();
    if (!hit)
    {
      if (strictValid && rep)
        rep->counters["misses_while_reference_valid"]++;
      break;
    }
    uint16_t c = out.header.id;
    log.content = c;
    bool legal = false;
    for (auto &p : ref.everPut)
      if (p.key == key && p.content == c && now < p.expiry)
        legal = true;
    if (rep)
    {
      rep->counters["hits"]++;
      if (legal && (!strictValid || st->second.content != c))
        rep->counters["legal_hits_differing_from_strict_reference"]++;
    }
    if (legal)
      break;
    // classify: which put produced this payload?
    const Op *src = nullptr;
    int64_t insertedAt = 0, t = 0;
    for (const Op *h : histOps)
    {
      if (h->kind == OP_ADVANCE)
        t += int64_t(h->ttl) * 1000000LL;
      if ((h->kind == OP_PUT || h->kind == OP_PUTNEG || h->kind == OP_PUTNEG_SOA) && h->content == c)
      {
        src = h;
        insertedAt = t;
      }
    }
    char d[512];
    if (!src)
    {
      v = {"hit-only-for-same-question", "served-payload-never-put", "get returned a payload id that no put of this history stored"};
    }
    else if (canonKey(src->q) != key)
    {
      v.clause = "hit-only-for-same-question";
      v.sig = std::string("put(") + kQName[src->q] + ")->get(" + kQName[op.q] + ")";
      snprintf(d, sizeof d, "%s returned the payload stored by %s: a different question (name compared case-insensitively, type, class)",
               op.name.c_str(), src->name.c_str());
      v.detail = d;
    }
    else
    {
      v.clause = "not-served-after-ttl";
      std::string what = src->kind == OP_PUT ? "put:min-ttl=" + std::to_string(src->ttl) + "@" + (src->place == 0 ? "answer" : src->place == 1 ? "authority" : "additional")
                         : src->kind == OP_PUTNEG ? "putNegative:ttl=" + std::to_string(src->ttl)
                                                  : "putNegativeSOA:soa-ttl=" + std::to_string(src->soaTtl) + ",soa-minimum=" + std::to_string(src->soaMin);
      v.sig = what;
      snprintf(d, sizeof d, "%s is a hit %lld ms after %s although the %s TTL is %u s (reference: elapsed%s)", op.name.c_str(),
               (long long)((now - insertedAt) / 1000000), src->name.c_str(), src->kind == OP_PUT ? "smallest record" : "negative-caching", src->ttl,
               src->ttl == 0 ? "; a TTL of 0 means do not cache" : "");
      v.detail = d;
    }
    break;
  }
  case OP_REMOVE:
    cache.remove(question(op.q));
    ref.strict.erase(canonKey(op.q));
    break;
  case OP_CLEAR:
    cache.clear();
    ref.strict.clear();
    break;
  case OP_ADVANCE:
    g_virtual_ns = g_virtual_ns + int64_t(op.ttl) * 1000000LL; // for OP_ADVANCE ttl holds the step in ms
    break;
  }
  if (op.kind == OP_PUT || op.kind == OP_PUTNEG || op.kind == OP_PUTNEG_SOA)
  {
    Payload p{canonKey(op.q), op.content, now + int64_t(op.ttl) * 1000000000LL};
    ref.strict[p.key] = p;
    ref.everPut.insert(p);
    ref.prune(now); // ttl 0: gone at once
  }
}

// Canonical key of (reference, implementation) at the current virtual time.
static std::string canon(dns::DnsCache &cache, Ref &ref)
{
  int64_t now = g_virtual_ns;
  ref.prune(now);
  std::string k = "R:";
  char b[160];
  for (auto &kv : ref.strict)
  {
    snprintf(b, sizeof b, "%d=%u+%lld;", kv.first, kv.second.content, (long long)(kv.second.expiry - now));
    k += b;
  }
  k += "|I:";
  // implementation table (private members; harness is built with -fno-access-control)
  std::vector<std::string> ents;
  {
    auto &ec = *cache.cache_;
    std::lock_guard<std::mutex> lock(ec._mutex);
    auto tnow = std::chrono::steady_clock::now();
    for (auto &kv : ec._cache)
    {
      long long rem = std::chrono::duration_cast<std::chrono::nanoseconds>(kv.second.expiration - tnow).count();
      if (rem <= 0)
        continue; // expired, not yet erased: indistinguishable from absent for every future operation
      // the reference's view of exactly this payload (only payloads physically present in the table can ever be
      // served, so this annotation is all of the history that future verdicts can depend on)
      std::string lower = kv.first.qname;
      std::transform(lower.begin(), lower.end(), lower.begin(), ::tolower);
      int ck = -1;
      for (int q = 0; q < Q_N; ++q)
      {
        dns::DnsQuestion qq = question(q);
        if (q != Q_UPPER && lower == qq.qname && kv.first.qtype == qq.qtype && kv.first.qclass == qq.qclass)
          ck = q;
      }
      unsigned cid = unsigned(kv.second.value.result.header.id);
      long long refRem = -1;
      for (auto &pl : ref.everPut)
        if (pl.key == ck && pl.content == cid && pl.expiry - now > refRem)
          refRem = pl.expiry - now;
      snprintf(b, sizeof b, "%s/%u/%u=%u%s+%lld~%lld;", kv.first.qname.c_str(), unsigned(kv.first.qtype), unsigned(kv.first.qclass), cid,
               kv.second.value.isNegative ? "N" : "P", rem, refRem);
      ents.push_back(b);
    }
  }
  std::sort(ents.begin(), ents.end());
  for (auto &e : ents)
    k += e;
  return k;
}

static std::string traceText(int cfgTtl, const std::vector<uint8_t> &hist)
{
  std::string s = "cfg-default-ttl=" + std::to_string(cfgTtl);
  for (uint8_t o : hist)
    s += ";" + g_ops[o].name;
  return s;
}

struct RunResult
{
  std::string key, parentKey;
  Verdict last;
  std::vector<Verdict> all;
  std::vector<StepLog> logs;
};

// Replays a history on a fresh cache.  checkAll: verdict for every step (replay mode) else only for the last.
static RunResult runTrace(int cfgTtl, const std::vector<uint8_t> &hist, bool checkAll, vr::Report *rep)
{
  RunResult rr;
  g_virtual_ns = 0;
  g_virtual = true;
  {
    std::unique_ptr<dns::DnsCache> cache(cfgTtl == 300 ? new dns::DnsCache() : new dns::DnsCache(std::chrono::seconds(cfgTtl)));
    Ref ref;
    std::vector<const Op *> ops;
    for (size_t i = 0; i < hist.size(); ++i)
    {
      const Op &op = g_ops[hist[i]];
      ops.push_back(&op);
      if (i + 1 == hist.size())
        rr.parentKey = canon(*cache, ref);
      Verdict v;
      StepLog lg;
      step(*cache, ref, op, v, lg, i + 1 == hist.size() ? rep : nullptr, ops);
      rr.logs.push_back(lg);
      if (checkAll)
        rr.all.push_back(v);
      if (i + 1 == hist.size())
        rr.last = v;
    }
    rr.key = canon(*cache, ref);
  }
  g_virtual = false;
  return rr;
}

static void bfs(const vr::Shard &sh, vr::Report &r, int cfgTtl, int maxDepth)
{
  struct Node
  {
    std::vector<uint8_t> hist;
    std::string key;
  };
  std::set<std::string> visited;
  std::deque<Node> frontier;
  {
    RunResult e = runTrace(cfgTtl, {}, false, nullptr);
    visited.insert(e.key);
    frontier.push_back(Node{{}, e.key});
    r.states++;
  }
  uint64_t idx = 0;
  for (int depth = 0; depth < maxDepth && !frontier.empty(); ++depth)
  {
    std::deque<Node> next;
    for (auto &n : frontier)
    {
      if (sh.timeUp())
      {
        r.exhaustive = false;
        r.notes.push_back("deadline reached during BFS at depth " + std::to_string(depth));
        return;
      }
      for (size_t o = 0; o < g_ops.size(); ++o)
      {
        std::vector<uint8_t> h = n.hist;
        h.push_back(uint8_t(o));
        std::string text = traceText(cfgTtl, h);
        sh.begin(idx++, text);
        RunResult rr = runTrace(cfgTtl, h, false, &r);
        sh.end();
        r.evaluations++;
        r.transitions++;
        r.traces++;
        if (rr.parentKey != n.key)
          r.violation("harness-internal", "canonical-key-not-reproducible", text, "replaying the parent history gave key " + rr.parentKey + " but the node was stored as " + n.key);
        if (!rr.last.clause.empty())
          r.violation(rr.last.clause, rr.last.sig, text, rr.last.detail);
        const Op &op = g_ops[o];
        if (op.kind == OP_GET && rr.logs.back().hit)
          r.distinct_nontrivial++;
        r.sampleEvery(4001, text + " => " + (op.kind == OP_GET ? (rr.logs.back().hit ? "hit payload " + std::to_string(rr.logs.back().content) : std::string("miss")) : std::string("ok")));
        if (visited.insert(rr.key).second)
        {
          r.states++;
          next.push_back(Node{h, rr.key});
        }
      }
    }
    r.counters["max_depth_reached"] = uint64_t(depth + 1);
    r.counters["frontier_depth_" + std::to_string(depth + 1) + "_cfg" + std::to_string(cfgTtl)] = next.size();
    frontier.swap(next);
  }
  if (!frontier.empty())
    r.counters["unexpanded_states_at_depth_bound"] += frontier.size();
}

static int replay(const std::string &file)
{
  std::string text = vr::readFile(file);
  std::vector<std::string> parts;
  size_t p = 0;
  for (;;)
  {
    size_t e = text.find(';', p);
    parts.push_back(text.substr(p, e == std::string::npos ? std::string::npos : e - p));
    if (e == std::string::npos)
      break;
    p = e + 1;
  }
  int cfg = 300;
  std::vector<uint8_t> hist;
  for (auto &s : parts)
  {
    if (s.rfind("cfg-default-ttl=", 0) == 0)
    {
      cfg = atoi(s.c_str() + 16);
      continue;
    }
    bool found = false;
    for (size_t o = 0; o < g_ops.size(); ++o)
      if (g_ops[o].name == s)
      {
        hist.push_back(uint8_t(o));
        found = true;
      }
    if (!found)
    {
      printf("REPLAY: unknown operation '%s'\n", s.c_str());
      return 2;
    }
  }
  RunResult rr = runTrace(cfg, hist, true, nullptr);
  printf("REPLAY: DnsCache default ttl %d s, virtual clock\n", cfg);
  int nv = 0;
  int64_t t = 0;
  for (size_t i = 0; i < hist.size(); ++i)
  {
    const Op &op = g_ops[hist[i]];
    printf("  t=%lldms %-55s", (long long)t, op.name.c_str());
    if (op.kind == OP_ADVANCE)
      t += op.ttl;
    if (rr.logs[i].isGet)
      printf(" -> %s", rr.logs[i].hit ? ("hit payload " + std::to_string(rr.logs[i].content)).c_str() : "miss");
    if (!rr.all[i].clause.empty())
    {
      printf("   VIOLATION %s/%s: %s", rr.all[i].clause.c_str(), rr.all[i].sig.c_str(), rr.all[i].detail.c_str());
      ++nv;
    }
    printf("\n");
  }
  printf("REPLAY: %s\n", nv ? "violation reproduced" : "no violation");
  return nv ? 1 : 0;
}

int main(int argc, char **argv)
{
  vr::Args args(argc, argv);
  iora::core::Logger::setLevel(iora::core::Logger::Level::Fatal);
  buildAlphabet();
  if (!args.replay.empty())
    return replay(args.replay);
  int depth = int(args.getInt("depth", args.thorough() ? 6 : 4));
  double deadline = double(args.getInt("deadline", args.thorough() ? 800 : 100));
  vr::Args one = args;
  one.jobs = 1; // a BFS with global duplicate detection is one sequential search; the supervisor adds crash / hang attribution
  vr::run_sharded(one, "C19_cache", "model_checking", 30, deadline > 30 ? deadline - 10 : deadline,
                  [&](const vr::Shard &sh, vr::Report &r)
                  {
                    r.rule = "transitions whose last operation is a get that HITS on the real cache (the oracle has something to judge); "
                             "states = distinct canonical (reference strict map + implementation table annotated with the reference lifetime "
                             "of each stored payload; lifetimes relative to the virtual clock)";
                    r.bounds["depth"] = std::to_string(depth);
                    r.bounds["alphabet_size"] = std::to_string(g_ops.size());
                    std::string a;
                    for (auto &o : g_ops)
                      a += (a.empty() ? "" : " ") + o.name;
                    r.bounds["alphabet"] = a;
                    r.bounds["configurations"] = "DnsCache() [default TTL 300 s], DnsCache(2 s)";
                    r.bounds["clock"] = "virtual CLOCK_MONOTONIC (clock_gettime defined by the harness), advance in exact steps of 1 s and 500 ms";
                    if (sh.resumed)
                    {
                      r.exhaustive = false;
                      r.notes.push_back("BFS aborted: a trace crashed or hung the process (see supervisor part)");
                      return;
                    }
                    bfs(sh, r, 300, depth);
                    bfs(sh, r, 2, depth);
                  });
  return 0;
}

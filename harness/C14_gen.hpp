// C14: bounded-exhaustive generator of well-formed documents (trees -> bytes + expected events).
#pragma once
#include "C14_ref.hpp"
#include <functional>
#include <map>

namespace c14
{

enum Kind
{
  KE, // element with start and end tag
  KZ, // empty-element tag <n/>
  KT, // text
  KC, // CDATA section
  KM, // comment
  KP  // processing instruction
};

struct GAttr
{
  std::string name, raw, dec;
  char quote;
};

// Label of one node.  Elements: name, attrs, ws (whitespace variant inside the tags).
// Text/CDATA/comment: raw.  PI: name = target, sep = separator, raw = data.
struct Label
{
  std::string name;
  std::vector<GAttr> attrs;
  int ws = 0;
  std::string raw;
  std::string sep;
};

struct GNode
{
  Kind k = KE;
  Label l;
  std::vector<GNode> kids;
};

// Expected event, as the document was built.
struct Ev
{
  char k; // S E Z T C M P
  std::string name;
  std::vector<GAttr> attrs;
  std::string raw; // T: raw text run; C/M: content; P: data (separator stripped)
  std::string dec; // T: decoded text
  size_t depth;
};

struct Doc
{
  std::string bytes;
  std::vector<Ev> ev;
  std::string family;
  bool wellFormed = true; // false: hostile family, robustness oracle only
  bool mutate = false;    // member of the mutation base set
  bool limits = false;    // member of the limit-product base set
  // limit quantities measured on the generating tree: reject-demand below lo, accept-demand from hi
  size_t depth = 0, attrs = 0, nameLo = 0, nameHi = 0, textLo = 0, textHi = 0, tokens = 0;
};

// ---------------- shapes ----------------
// All element-rooted trees with exactly n nodes; children kinds {E,Z,T,C,M,P}; no two adjacent T.
class Shapes
{
public:
  const std::vector<GNode> &exact(int n)
  {
    auto it = _memo.find(n);
    if (it != _memo.end())
      return it->second;
    std::vector<GNode> out;
    for (auto &seq : seqs(n - 1))
    {
      GNode e;
      e.k = KE;
      e.kids = seq;
      out.push_back(e);
    }
    return _memo[n] = out;
  }

private:
  std::vector<GNode> singles(int s)
  {
    if (s == 1)
    {
      std::vector<GNode> v;
      for (Kind k : {KE, KZ, KT, KC, KM, KP})
      {
        GNode g;
        g.k = k;
        v.push_back(g);
      }
      return v;
    }
    return exact(s);
  }
  std::vector<std::vector<GNode>> seqs(int total)
  {
    auto it = _seq.find(total);
    if (it != _seq.end())
      return it->second;
    std::vector<std::vector<GNode>> out;
    if (total == 0)
      out.push_back({});
    else
      for (int s = 1; s <= total; ++s)
        for (auto &first : singles(s))
          for (auto &rest : seqs(total - s))
          {
            if (first.k == KT && !rest.empty() && rest[0].k == KT)
              continue;
            std::vector<GNode> v;
            v.push_back(first);
            v.insert(v.end(), rest.begin(), rest.end());
            out.push_back(v);
          }
    return _seq[total] = out;
  }
  std::map<int, std::vector<GNode>> _memo;
  std::map<int, std::vector<std::vector<GNode>>> _seq;
};

// ---------------- rendering ----------------
struct RenderOpt
{
  int pretty = 0; // 0 none, 1 "\n"+indent in every gap not adjacent to text, 2 "\r\n " likewise
  std::string prolog, epilog;
  std::vector<Ev> prologEv, epilogEv;
  size_t prologTokens = 0, epilogTokens = 0; // tokens not listed as events (xml declaration, doctype)
  size_t prologNameHi = 0;
};

inline void renderAttrs(const Label &l, std::string &o)
{
  const char *sep = l.ws == 3 ? "\r\n\t" : l.ws == 4 ? "  " : " ";
  const char *eq = l.ws == 2 ? " = " : "=";
  for (auto &a : l.attrs)
  {
    o += sep;
    o += a.name;
    o += eq;
    o += a.quote;
    o += a.raw;
    o += a.quote;
  }
}
inline const char *tagTail(int ws) { return ws == 1 ? " " : ws == 3 ? "\r\n" : ""; }

struct Renderer
{
  const RenderOpt &ro;
  std::string out;
  std::vector<Ev> ev;
  Doc &d;
  explicit Renderer(const RenderOpt &r, Doc &doc) : ro(r), d(doc) {}

  void gap(size_t level)
  {
    if (ro.pretty == 1)
    {
      out += "\n";
      out.append(level * 2, ' ');
    }
    else if (ro.pretty == 2)
      out += "\r\n ";
  }
  void names(const Label &l)
  {
    d.nameLo = std::max(d.nameLo, l.name.size());
    for (auto &a : l.attrs)
    {
      d.nameLo = std::max(d.nameLo, a.name.size());
      d.textHi = std::max(d.textHi, a.raw.size());
    }
    d.attrs = std::max(d.attrs, l.attrs.size());
  }
  void node(const GNode &g, size_t depth) // depth = number of open elements around g
  {
    switch (g.k)
    {
    case KZ:
      out += "<" + g.l.name;
      renderAttrs(g.l, out);
      out += tagTail(g.l.ws);
      out += "/>";
      ev.push_back(Ev{'Z', g.l.name, g.l.attrs, "", "", depth + 1});
      names(g.l);
      d.depth = std::max(d.depth, depth + 1);
      break;
    case KE:
    {
      out += "<" + g.l.name;
      renderAttrs(g.l, out);
      out += tagTail(g.l.ws);
      out += ">";
      ev.push_back(Ev{'S', g.l.name, g.l.attrs, "", "", depth + 1});
      names(g.l);
      d.depth = std::max(d.depth, depth + 1);
      for (size_t i = 0; i <= g.kids.size(); ++i)
      {
        bool leftText = i > 0 && g.kids[i - 1].k == KT;
        bool rightText = i < g.kids.size() && g.kids[i].k == KT;
        if (!leftText && !rightText)
          gap(i < g.kids.size() ? depth + 1 : depth);
        if (i < g.kids.size())
          node(g.kids[i], depth + 1);
      }
      out += "</" + g.l.name + tagTail(g.l.ws) + ">";
      ev.push_back(Ev{'E', g.l.name, {}, "", "", depth + 1});
      break;
    }
    case KT:
    {
      out += g.l.raw;
      std::string dec;
      refDecode(g.l.raw, dec);
      ev.push_back(Ev{'T', "", {}, g.l.raw, dec, depth});
      d.textLo = std::max(d.textLo, lstrip(g.l.raw).size());
      d.textHi = std::max(d.textHi, g.l.raw.size());
      break;
    }
    case KC:
      out += "<![CDATA[" + g.l.raw + "]]>";
      ev.push_back(Ev{'C', "", {}, g.l.raw, g.l.raw, depth});
      d.textHi = std::max(d.textHi, g.l.raw.size());
      break;
    case KM:
      out += "<!--" + g.l.raw + "-->";
      ev.push_back(Ev{'M', "", {}, g.l.raw, g.l.raw, depth});
      d.textHi = std::max(d.textHi, g.l.raw.size());
      break;
    case KP:
      out += "<?" + g.l.name + g.l.sep + g.l.raw + "?>";
      ev.push_back(Ev{'P', g.l.name, {}, g.l.raw, g.l.raw, depth});
      d.nameHi = std::max(d.nameHi, g.l.name.size());
      d.textHi = std::max(d.textHi, g.l.sep.size() + g.l.raw.size());
      break;
    }
  }
};

inline Doc render(const GNode &root, const RenderOpt &ro, const std::string &family)
{
  Doc d;
  d.family = family;
  Renderer r(ro, d);
  r.out = ro.prolog;
  r.ev = ro.prologEv;
  r.node(root, 0);
  r.out += ro.epilog;
  for (auto &e : ro.epilogEv)
    r.ev.push_back(e);
  for (auto &e : ro.prologEv)
    if (e.k == 'P')
      d.nameHi = std::max(d.nameHi, e.name.size());
  for (auto &e : ro.epilogEv)
    if (e.k == 'P')
      d.nameHi = std::max(d.nameHi, e.name.size());
  d.nameHi = std::max(std::max(d.nameHi, d.nameLo), ro.prologNameHi);
  d.textHi = std::max(std::max(d.textHi, d.textLo), std::max(ro.prolog.size(), ro.epilog.size()));
  d.tokens = r.ev.size() + ro.prologTokens + ro.epilogTokens;
  d.bytes = std::move(r.out);
  d.ev = std::move(r.ev);
  return d;
}

// Canonical serialisation shared with oracle/c14_expat.py (Z -> S,E; T decoded; ws-only T dropped).
inline void canonOne(std::string &o, char k, size_t depth, sv name, sv text,
                     const std::vector<std::pair<std::string, std::string>> &attrs)
{
  o += k;
  o += std::to_string(depth);
  o += '\x1f';
  o += name;
  o += '\x1f';
  o += text;
  for (auto &a : attrs)
  {
    o += '\x1e';
    o += a.first;
    o += '\x1f';
    o += a.second;
  }
  o += '\x1d';
}
inline std::string canonExpected(const std::vector<Ev> &ev)
{
  std::string o;
  for (auto &e : ev)
  {
    std::vector<std::pair<std::string, std::string>> at;
    for (auto &a : e.attrs)
      at.push_back({a.name, a.dec});
    switch (e.k)
    {
    case 'S':
      canonOne(o, 'S', e.depth, e.name, "", at);
      break;
    case 'Z':
      canonOne(o, 'S', e.depth, e.name, "", at);
      canonOne(o, 'E', e.depth, e.name, "", {});
      break;
    case 'E':
      canonOne(o, 'E', e.depth, e.name, "", {});
      break;
    case 'T':
      if (!allWs(e.dec))
        canonOne(o, 'T', e.depth, "", e.dec, {});
      break;
    case 'C':
    case 'M':
      canonOne(o, e.k, e.depth, "", e.raw, {});
      break;
    case 'P':
      canonOne(o, 'P', e.depth, e.name, e.raw, {});
      break;
    }
  }
  return o;
}

} // namespace c14

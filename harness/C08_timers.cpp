// C08: timers never fire early, twice, or after a successful cancel.
//
// Real code under test: iora::core::TimerService (its own epoll thread; epoll / eventfd / timerfd
// are rt/simk objects on the virtual clock), TimerServicePool, and iora::core::TimingWheel with its
// own tick thread (4 slots x 3 levels, 10 ms tick, so level boundaries and cascades are reached
// within a few ticks).  Parts:
//   ts_*     TimerService scenarios: app threads schedule / cancel / drain / stop; interleavings and
//            "timer lands first" deviations within the bounds
//   wheel_*  TimingWheel scenarios incl. a slow handler on the tick thread (tick thread late by k ticks)
//   wheelseq every operation history up to a depth over {schedule d, cancel, reschedule, tick,
//            late tick} on a wheel driven by explicit advance() calls, against a list reference
//
// Oracle clauses:
//   at-most-once      a one-shot handler starts at most once
//   not-early         start >= (time the schedule call began) + delay   [wheel: minus one tick];
//                     k-th start of a periodic timer >= call time + k * interval
//   cancel-means-no-start   cancel/reschedule returned true => the old schedule's handler does not start later
//   never-dropped     cancel returned false / timer never cancelled, service kept running past the
//                     deadline => exactly one start
//   quiet-after-stop  no handler starts or is still running after stop()/drain() returned
//   refused-after-stop a schedule call that begins after stop()/drain() returned is refused
#include "mc.h"
#ifdef MC_TSAN
#include "tsan_shim.h" // T flavour: atomics of the timer objects are scheduling points, plain accesses are checked against happens-before
#define C08_WATCH(p, n, name) mc_watch((p), (n), (name), true)
#define C08_UNWATCH(p) mc_unwatch((p))
#else
#define C08_WATCH(p, n, name) ((void)0)
#define C08_UNWATCH(p) ((void)0)
#endif
#include "simk.h"
#include <iora/core/timer.hpp>
#include <iora/core/timing_wheel.hpp>

#include <map>
#include <sstream>
#include <thread>

using namespace iora::core;
using std::chrono::milliseconds;

namespace
{
constexpr uint64_t MS = 1000000ull;

struct Tm
{
  uint64_t callNs = 0; // virtual time at which the schedule call began
  uint64_t delayMs = 0;
  uint64_t intervalMs = 0; // periodic
  uint64_t id = 0;
  bool accepted = false;
  std::vector<uint64_t> startNs, startStep, endStep;
  bool cancelTrue = false;
  uint64_t cancelReturnStep = 0;
  bool cancelFalse = false;
  uint64_t rescheduleReturnStep = 0; // wheel: last successful reschedule
  uint64_t rescheduleCallNs = 0, rescheduleDelayMs = 0;
  int slowMs = 0;
};

struct Log
{
  std::vector<Tm> tm;
  uint64_t stopReturnStep = 0;
  bool stopped = false;
  int running = 0;
};
Log *L = nullptr;

void handlerBody(int k)
{
  // the start of a handler is an observable event: other threads may be ordered right before it
  mc_yield_point("handler-start");
  Tm &t = L->tm[size_t(k)];
  if (L->stopped)
    mc_violation("quiet-after-stop", "handler-started-after-stop", "handler of timer " + std::to_string(k) + " started after stop()/drain() had returned");
  t.startNs.push_back(mc_now_ns());
  t.startStep.push_back(mc_step());
  L->running++;
  if (t.slowMs)
    std::this_thread::sleep_for(milliseconds(t.slowMs));
  L->running--;
  t.endStep.push_back(mc_step());
  if (L->stopped)
    mc_violation("quiet-after-stop", "handler-running-after-stop", "handler of timer " + std::to_string(k) + " was still running when stop()/drain() returned");
}

void checkTimers(const char *kind, uint64_t earlyToleranceNs, bool ranPastAllDeadlines)
{
  std::ostringstream os;
  for (size_t k = 0; k < L->tm.size(); ++k)
  {
    Tm &t = L->tm[k];
    os << k << ":" << (t.accepted ? "A" : "R") << t.startNs.size() << (t.cancelTrue ? "c" : "") << " ";
    if (!t.accepted)
    {
      if (!t.startNs.empty())
        mc_violation("at-most-once", std::string(kind) + ":refused-timer-fired", "timer " + std::to_string(k) + " was refused but its handler ran");
      continue;
    }
    std::string who = std::string(kind) + ":delay" + std::to_string(t.delayMs) + (t.intervalMs ? ":periodic" : "");
    if (!t.intervalMs && t.startNs.size() > 1)
      mc_violation("at-most-once", who + ":fired-twice", "one-shot timer " + std::to_string(k) + " fired " + std::to_string(t.startNs.size()) + " times");
    for (size_t i = 0; i < t.startNs.size(); ++i)
    {
      uint64_t base = t.callNs, d = t.delayMs;
      if (t.rescheduleReturnStep && t.startStep[i] > t.rescheduleReturnStep)
      {
        base = t.rescheduleCallNs;
        d = t.rescheduleDelayMs;
      }
      uint64_t due = base + (t.intervalMs ? (i + 1) * t.intervalMs : d) * MS;
      if (t.startNs[i] + earlyToleranceNs < due)
      {
        char b[200];
        snprintf(b, sizeof b, "timer %zu firing %zu started at +%.3f ms, due at +%.3f ms (tolerance %.0f ms)", k, i, (t.startNs[i] - t.callNs) / 1e6,
                 (due - t.callNs) / 1e6, earlyToleranceNs / 1e6);
        mc_violation("not-early", who + ":early", b);
      }
      if (t.cancelTrue && t.startStep[i] > t.cancelReturnStep)
        mc_violation("cancel-means-no-start", who + ":started-after-successful-cancel", "timer " + std::to_string(k) + " handler started after cancel() had returned true");
    }
    if (ranPastAllDeadlines && !t.cancelTrue && !t.intervalMs && t.startNs.size() != 1)
      mc_violation("never-dropped", who + (t.cancelFalse ? ":cancel-false-but-never-fired" : ":never-fired"),
                   "timer " + std::to_string(k) + " was accepted, never successfully cancelled, the service ran past its deadline, but it fired " +
                     std::to_string(t.startNs.size()) + " times");
  }
  mc_obs("%s timers %s", kind, os.str().c_str());
}

// ---------------------------------------------------------------- TimerService scenarios
struct TsScn
{
  const char *name;
  const char *prog1, *prog2; // ops per app thread
  int term;                  // 0: wait past deadlines then stop; 1: stop() concurrently; 2: drain(50) concurrently; 3: destructor
  int qP, qT, tP, tT;
};
// ops: a scheduleAfter(20ms)  b scheduleAfter(21ms)  z scheduleAfter(0)  p scheduleAt(past)  P schedulePeriodic(15ms)
//      c cancel(first own timer)  C cancel(periodic)  s sleep 25ms  S scheduleAfter(20ms) with slow handler (30ms)
//      l late schedule (after terminator) via sleep 200ms then scheduleAfter(5ms)
void tsProgram(TimerService &svc, const std::string &prog, const std::string &who, std::vector<int> &mine)
{
  for (char op : prog)
  {
    mc_label((who + ":" + std::string(1, op)).c_str());
    if (op == 's')
    {
      std::this_thread::sleep_for(milliseconds(25));
      continue;
    }
    if (op == 'l')
    {
      std::this_thread::sleep_for(milliseconds(400));
      op = 'a';
    }
    if (op == 'L')
    {
      std::this_thread::sleep_for(milliseconds(7000)); // later than a stop() whose internal 5 s drain timed out
      op = 'a';
    }
    if (op == 'c' || op == 'C')
    {
      int target = -1;
      for (int k : mine)
        if (L->tm[size_t(k)].accepted && !L->tm[size_t(k)].cancelTrue && !L->tm[size_t(k)].cancelFalse && ((op == 'C') == (L->tm[size_t(k)].intervalMs != 0)))
        {
          target = k;
          break;
        }
      if (target < 0)
        continue;
      Tm &t = L->tm[size_t(target)];
      bool ok = svc.cancel(t.id);
      if (ok)
      {
        t.cancelTrue = true;
        t.cancelReturnStep = mc_step();
      }
      else
        t.cancelFalse = true;
      mc_obs("%s cancel(%d)=%d", who.c_str(), target, int(ok));
      continue;
    }
    int k = int(L->tm.size());
    L->tm.emplace_back();
    mine.push_back(k);
    bool stoppedBefore = L->stopped;
    {
      Tm &t = L->tm[size_t(k)];
      t.callNs = mc_now_ns();
      t.delayMs = (op == 'a' || op == 'S' || op == 'X') ? 20 : op == 'b' ? 21 : 0; // b: deadline 1 ms behind an 'a' timer scheduled at the same instant
      t.slowMs = op == 'S' ? 30 : op == 'X' ? 6000 : 0; // X: a handler that outlives stop()'s internal drain(5000)
      if (op == 'P')
        t.intervalMs = 15;
    }
    uint64_t id = 0;
    if (op == 'P')
      id = svc.schedulePeriodic(milliseconds(15), [k]() { handlerBody(k); });
    else if (op == 'p')
      id = svc.scheduleAt(TimerService::Clock::now() - milliseconds(5), [k]() { handlerBody(k); });
    else
      id = svc.scheduleAfter(milliseconds(L->tm[size_t(k)].delayMs), [k]() { handlerBody(k); });
    L->tm[size_t(k)].id = id;
    L->tm[size_t(k)].accepted = id != 0;
    mc_obs("%s %c(%d)=%s", who.c_str(), op, k, id ? "ok" : "refused");
    if (stoppedBefore && id != 0)
      mc_violation("refused-after-stop", "schedule-accepted-after-stop", "a schedule call that began after stop()/drain() returned was accepted");
  }
  mc_label((who + ":done").c_str());
}

void runTs(const TsScn &sc)
{
  mc_label("main:setup");
  Log log;
  L = &log;
  log.tm.reserve(32);
  TimerServiceConfig cfg;
  cfg.enableStatistics = false;
  auto *svc = new TimerService(cfg);
  C08_WATCH(svc, sizeof(TimerService), "timer.service");
  std::vector<int> m1, m2;
  std::thread a([&]() { tsProgram(*svc, sc.prog1, "A", m1); });
  std::thread b;
  if (sc.prog2[0])
    b = std::thread([&]() { tsProgram(*svc, sc.prog2, "B", m2); });
  bool past = false;
  if (sc.term == 0 || sc.term == 3)
  {
    mc_label("main:join");
    a.join();
    if (b.joinable())
      b.join();
    mc_quiesce(60 * MS); // let periodic timers fire a few times
    for (auto &t : log.tm)
      if (t.intervalMs && t.accepted && !t.cancelTrue)
      {
        bool ok = svc->cancel(t.id);
        if (ok)
        {
          t.cancelTrue = true;
          t.cancelReturnStep = mc_step();
        }
      }
    // Wait until the service itself reports nothing in flight (robust against timer deviations that make
    // the virtual clock jump while the service thread is merely slow): bounded number of 20 ms rounds.
    for (int i = 0; i < 150 && svc->getInFlightCount() > 0; ++i)
      mc_quiesce(20 * MS);
    if (svc->getInFlightCount() > 0)
      mc_violation("never-dropped", "ts:still-in-flight-after-3s", "timers still in flight 3 s (virtual) after the last deadline while the service was running");
    mc_quiesce(5 * MS);
    past = true;
    mc_label("main:stop");
    if (sc.term == 0)
    {
      svc->stop();
      log.stopReturnStep = mc_step();
      log.stopped = true;
      if (log.running)
        mc_violation("quiet-after-stop", "handler-running-at-stop-return", "a handler was running when stop() returned");
    }
  }
  else
  {
    mc_label(sc.term == 1 ? "main:stop" : "main:drain");
    if (sc.term == 1)
      svc->stop();
    else
    {
      if (sc.term == 4)
        std::this_thread::sleep_for(milliseconds(30)); // a handler that started at 20 ms and takes 30 ms is in the middle of its run
      auto r = svc->drain(sc.term == 4 ? 200 : 50);
      mc_obs("drain=%d", int(r.success));
      if (!r.success)
        goto joinOnly; // timed-out drain restores Running: nothing to assert about quietness
    }
    log.stopReturnStep = mc_step();
    log.stopped = true;
    if (log.running)
      mc_violation("quiet-after-stop", "handler-running-at-stop-return", "a handler was running when stop()/drain() returned");
  joinOnly:
    mc_label("main:join");
    a.join();
    if (b.joinable())
      b.join();
    mc_quiesce(100 * MS);
  }
  mc_label("main:dtor");
  C08_UNWATCH(svc);
  delete svc;
  log.stopped = true;
  mc_quiesce(50 * MS);
  mc_label("main:check");
  checkTimers("ts", 0, past);
  if (simk_open_fds() != 0)
    mc_violation("quiet-after-stop", "descriptors-left-open", std::to_string(simk_open_fds()) + " simulated descriptors still open after destruction");
  L = nullptr;
}

const TsScn TS[] = {
  {"ts_basic", "azp", "", 0, 2, 1, 3, 2},
  {"ts_two_threads", "ac", "za", 0, 1, 1, 2, 2},
  {"ts_adjacent_deadlines", "abz", "b", 0, 1, 1, 2, 2}, // the service is awake for one timer while the next is due 1 ms later
  {"ts_cancel_race", "asc", "", 0, 2, 2, 3, 2},
  {"ts_cancel_other_thread", "a", "sc", 0, 1, 1, 2, 2},
  {"ts_periodic_cancel", "PsC", "", 0, 2, 2, 3, 2},
  {"ts_periodic_two", "Ps", "a", 0, 1, 1, 2, 2},
  {"ts_stop_concurrent", "aza", "", 1, 2, 1, 3, 2},
  {"ts_drain_concurrent", "az", "a", 2, 1, 1, 2, 2},
  {"ts_slow_handler_stop", "Ss", "", 1, 2, 2, 3, 2},
  {"ts_slow_handler_drain", "S", "", 4, 1, 1, 2, 2}, // term 4: drain(200 ms) called while the slow handler runs
  {"ts_late_schedule", "al", "", 1, 1, 1, 2, 1},
  {"ts_stop_drain_timeout_then_schedule", "XL", "", 1, 1, 1, 2, 1}, // stop()'s drain times out (handler runs 6 s), stop forces the shutdown; a later schedule must be refused
  {"ts_dtor", "az", "", 3, 1, 1, 2, 2},
};

// ---------------------------------------------------------------- TimingWheel scenarios
struct WhScn
{
  const char *name;
  const char *prog1, *prog2;
  int term; // 0 wait then stop, 1 stop concurrently, 2 drain concurrently
  int qP, qT, tP, tT;
};
// ops: 0 schedule(0) 5 schedule(5ms) a schedule(10ms) b schedule(20ms) L schedule(40ms = level-1 boundary)
//      M schedule(45ms) H schedule(160ms = level-2 boundary) S schedule(10ms, slow handler 35ms)
//      c cancel(first own live) r reschedule(first own live, 25ms) s sleep 12ms  w sleep 25ms
void whProgram(TimingWheel &wh, const std::string &prog, const std::string &who, std::vector<int> &mine)
{
  for (char op : prog)
  {
    mc_label((who + ":" + std::string(1, op)).c_str());
    if (op == 's' || op == 'w')
    {
      std::this_thread::sleep_for(milliseconds(op == 's' ? 12 : 25));
      continue;
    }
    if (op == 'c' || op == 'r')
    {
      int target = -1;
      for (int k : mine)
        if (L->tm[size_t(k)].accepted && !L->tm[size_t(k)].cancelTrue && !L->tm[size_t(k)].cancelFalse)
        {
          target = k;
          break;
        }
      if (target < 0)
        continue;
      Tm &t = L->tm[size_t(target)];
      if (op == 'c')
      {
        bool ok = wh.cancel(t.id);
        if (ok)
        {
          t.cancelTrue = true;
          t.cancelReturnStep = mc_step();
        }
        else
          t.cancelFalse = true;
        mc_obs("%s cancel(%d)=%d", who.c_str(), target, int(ok));
      }
      else
      {
        uint64_t callNs = mc_now_ns();
        bool ok = wh.reschedule(t.id, milliseconds(25));
        if (ok)
        {
          // the OLD schedule must not fire any more; the new one is due 25 ms from the call
          t.rescheduleReturnStep = mc_step();
          t.rescheduleCallNs = callNs;
          t.rescheduleDelayMs = 25;
        }
        else
          t.cancelFalse = true;
        mc_obs("%s reschedule(%d)=%d", who.c_str(), target, int(ok));
      }
      continue;
    }
    int k = int(L->tm.size());
    L->tm.emplace_back();
    mine.push_back(k);
    bool stoppedBefore = L->stopped;
    uint64_t d = op == '0' ? 0 : op == '5' ? 5 : op == 'a' ? 10 : op == 'b' ? 20 : op == 'd' ? 30 : op == 'L' ? 40 : op == 'M' ? 45 : op == 'H' ? 160 : 10;
    {
      Tm &t = L->tm[size_t(k)];
      t.callNs = mc_now_ns();
      t.delayMs = d;
      t.slowMs = op == 'S' ? 35 : 0;
    }
    TimerId id = wh.schedule(milliseconds(d), [k]() { handlerBody(k); });
    L->tm[size_t(k)].id = id;
    L->tm[size_t(k)].accepted = id != InvalidTimerId;
    mc_obs("%s %c(%d)=%s", who.c_str(), op, k, id != InvalidTimerId ? "ok" : "refused");
    if (stoppedBefore && id != InvalidTimerId)
      mc_violation("refused-after-stop", "schedule-accepted-after-stop", "a schedule call that began after stop()/drain() returned was accepted");
  }
  mc_label((who + ":done").c_str());
}

void runWh(const WhScn &sc)
{
  mc_label("main:setup");
  Log log;
  L = &log;
  log.tm.reserve(32);
  auto *wh = new TimingWheel(milliseconds(10), 4, 3);
  C08_WATCH(wh, sizeof(TimingWheel), "timing.wheel");
  wh->start();
  std::vector<int> m1, m2;
  std::thread a([&]() { whProgram(*wh, sc.prog1, "A", m1); });
  std::thread b;
  if (sc.prog2[0])
    b = std::thread([&]() { whProgram(*wh, sc.prog2, "B", m2); });
  bool past = false;
  if (sc.term == 0)
  {
    mc_label("main:join");
    a.join();
    if (b.joinable())
      b.join();
    for (int i = 0; i < 200 && wh->pendingCount() > 0; ++i)
      mc_quiesce(20 * MS);
    if (wh->pendingCount() > 0)
      mc_violation("never-dropped", "wheel:still-pending-after-4s", "timers still pending 4 s (virtual) after scheduling while the wheel was running");
    mc_quiesce(5 * MS);
    past = true;
    mc_label("main:stop");
    wh->stop();
  }
  else
  {
    mc_label(sc.term == 1 ? "main:stop" : "main:drain");
    if (sc.term == 1)
      wh->stop();
    else
      wh->drain(milliseconds(1000));
  }
  log.stopReturnStep = mc_step();
  log.stopped = true;
  if (log.running)
    mc_violation("quiet-after-stop", "handler-running-at-stop-return", "a handler was running when stop()/drain() returned");
  if (sc.term != 0)
  {
    mc_label("main:join");
    a.join();
    if (b.joinable())
      b.join();
    mc_quiesce(100 * MS);
  }
  mc_label("main:dtor");
  C08_UNWATCH(wh);
  delete wh;
  mc_label("main:check");
  checkTimers("wheel", 10 * MS, past);
  L = nullptr;
}

const WhScn WH[] = {
  {"wheel_delays", "05abL", "", 0, 1, 1, 2, 2},
  {"wheel_levels", "MH", "sL", 0, 1, 1, 2, 2},
  {"wheel_cancel", "bsc", "a", 0, 2, 1, 3, 2},
  {"wheel_reschedule", "bsr", "", 0, 2, 1, 3, 2},
  {"wheel_slow_handler", "S", "wbwa", 0, 1, 1, 2, 2},
  {"wheel_slow_handler_lag", "S", "wwd", 0, 1, 1, 2, 2},
  {"wheel_stop_concurrent", "0ab", "", 1, 2, 1, 3, 2},
  {"wheel_drain_concurrent", "0aL", "", 2, 2, 1, 3, 2},
};

// ---------------------------------------------------------------- sequential wheel histories
void wheelSeq(int depth)
{
  mc_label("main:wheelseq");
  Log log;
  L = &log;
  log.tm.reserve(32);
  auto *wh = new TimingWheel(milliseconds(10), 4, 3);
  C08_WATCH(wh, sizeof(TimingWheel), "timing.wheel");
  // drive the wheel by hand: accept timers, no tick thread
  wh->_accepting.store(true);
  wh->_state.store(TimingWheelState::RUNNING);
  wh->_lastAdvanceTime = TimingWheel::Clock::now();
  std::string hist;
  auto firstLive = [&]() -> int
  {
    for (size_t k = 0; k < log.tm.size(); ++k)
      if (log.tm[k].accepted && !log.tm[k].cancelTrue && !log.tm[k].cancelFalse && log.tm[k].startNs.empty())
        return int(k);
    return -1;
  };
  static const uint64_t DELAYS[] = {0, 5, 10, 25, 40, 45};
  for (int s = 0; s < depth; ++s)
  {
    // 0 tick | 1..6 schedule DELAYS | 7 cancel | 8 reschedule(25) | 9 late tick (35 ms) | 10 half tick sleep (5 ms)
    // | 11 lag: 25 ms pass without an advance() (tick thread held up)
    int op = mc_choose(12, MC_FREE);
    if (op == 0 || op == 9)
    {
      std::this_thread::sleep_for(milliseconds(op == 0 ? 10 : 35));
      wh->advance();
      hist += op == 0 ? "t" : "T";
    }
    else if (op == 10)
    {
      std::this_thread::sleep_for(milliseconds(5));
      hist += "h";
    }
    else if (op == 11)
    {
      std::this_thread::sleep_for(milliseconds(25));
      hist += "G";
    }
    else if (op >= 1 && op <= 6)
    {
      int k = int(log.tm.size());
      log.tm.emplace_back();
      Tm &t = log.tm[size_t(k)];
      t.callNs = mc_now_ns();
      t.delayMs = DELAYS[op - 1];
      t.id = wh->schedule(milliseconds(t.delayMs), [k]() { handlerBody(k); });
      t.accepted = t.id != InvalidTimerId;
      hist += char('0' + op);
    }
    else if (op == 7)
    {
      int k = firstLive();
      hist += "c";
      if (k >= 0)
      {
        Tm &t = log.tm[size_t(k)];
        if (wh->cancel(t.id))
        {
          t.cancelTrue = true;
          t.cancelReturnStep = mc_step();
        }
        else
          mc_violation("never-dropped", "wheel:cancel-false-for-pending-timer", "cancel returned false for a timer that had not fired (hist " + hist + ")");
      }
    }
    else
    {
      int k = firstLive();
      hist += "r";
      if (k >= 0)
      {
        Tm &t = log.tm[size_t(k)];
        uint64_t callNs = mc_now_ns();
        if (wh->reschedule(t.id, milliseconds(25)))
        {
          t.rescheduleReturnStep = mc_step();
          t.rescheduleCallNs = callNs;
          t.rescheduleDelayMs = 25;
        }
        else
          mc_violation("never-dropped", "wheel:reschedule-false-for-pending-timer", "reschedule returned false for a timer that had not fired (hist " + hist + ")");
      }
    }
  }
  mc_obs("hist=%s", hist.c_str());
  // run regular ticks far past every deadline
  for (int i = 0; i < 80; ++i)
  {
    std::this_thread::sleep_for(milliseconds(10));
    wh->advance();
  }
  checkTimers("wheel", 10 * MS, true);
  wh->_accepting.store(false);
  C08_UNWATCH(wh);
  delete wh;
  L = nullptr;
}

// ---------------------------------------------------------------- pool
void runPool()
{
  mc_label("main:pool");
  Log log;
  L = &log;
  log.tm.reserve(16);
  TimerServiceConfig cfg;
  cfg.enableStatistics = false;
  auto *pool = new TimerServicePool(2, cfg);
  std::thread a(
    [&]()
    {
      mc_label("A:pool");
      for (int i = 0; i < 3; ++i)
      {
        int k = int(L->tm.size());
        L->tm.emplace_back();
        L->tm[size_t(k)].callNs = mc_now_ns();
        L->tm[size_t(k)].delayMs = uint64_t(10 * i);
        uint64_t id = pool->getService().scheduleAfter(milliseconds(10 * i), [k]() { handlerBody(k); });
        L->tm[size_t(k)].id = id;
        L->tm[size_t(k)].accepted = id != 0;
      }
      mc_label("A:done");
    });
  a.join();
  mc_quiesce(100 * MS);
  pool->stop();
  log.stopped = true;
  delete pool;
  checkTimers("pool", 0, true);
  L = nullptr;
}
// stop -> reset -> start: a second life of the same service object.  Whatever the first life leaves behind (a cancelled
// timer whose heap entry was never collected, a timer still pending at stop, a timer that fired) must not touch the
// second: a timer scheduled after the restart - identifiers start again at 1 after reset() - fires once, not before its
// own deadline, and nothing of the first life fires any more.
void runRestart()
{
  mc_label("main:restart");
  Log log;
  L = &log;
  log.tm.reserve(16);
  TimerServiceConfig cfg;
  cfg.enableStatistics = false;
  auto *svc = new TimerService(cfg);
  C08_WATCH(svc, sizeof(TimerService), "timer.service");
  auto sched = [&](uint64_t ms)
  {
    int k = int(L->tm.size());
    L->tm.emplace_back();
    L->tm[size_t(k)].callNs = mc_now_ns();
    L->tm[size_t(k)].delayMs = ms;
    uint64_t id = svc->scheduleAfter(milliseconds(ms), [k]() { handlerBody(k); });
    L->tm[size_t(k)].id = id;
    L->tm[size_t(k)].accepted = id != 0;
    return k;
  };
  int leftover = mc_choose(3, MC_FREE); // 0 cancelled, 1 pending at stop, 2 fired
  int secondDelay = mc_choose(2, MC_FREE) ? 10 : 150; // before / after the first life's deadline
  int k0 = sched(30);
  if (leftover == 0)
  {
    if (svc->cancel(log.tm[size_t(k0)].id))
    {
      log.tm[size_t(k0)].cancelTrue = true;
      log.tm[size_t(k0)].cancelReturnStep = mc_step();
    }
  }
  else if (leftover == 2)
    mc_quiesce(40 * MS);
  svc->stop();
  uint64_t firstStopStep = mc_step();
  size_t firedInFirstLife = log.tm[size_t(k0)].startNs.size();
  auto r = svc->reset();
  auto st = r.success ? svc->start() : r;
  mc_obs("leftover=%d second=%d reset=%d start=%d", leftover, secondDelay, int(r.success), int(st.success));
  if (r.success && st.success)
  {
    int k1 = sched(uint64_t(secondDelay));
    if (!log.tm[size_t(k1)].accepted)
      mc_violation("never-dropped", "ts-restart:schedule-refused-on-restarted-service", "scheduleAfter() on a service that was stopped, reset and started again returned 0");
    for (int i = 0; i < 150 && svc->getInFlightCount() > 0; ++i)
      mc_quiesce(20 * MS);
    mc_quiesce(60 * MS);
    if (log.tm[size_t(k1)].accepted && log.tm[size_t(k1)].startNs.size() != 1)
      mc_violation("never-dropped", "ts-restart:second-life-timer-fired-" + std::to_string(log.tm[size_t(k1)].startNs.size()) + "-times",
                   "a timer scheduled after stop/reset/start fired " + std::to_string(log.tm[size_t(k1)].startNs.size()) + " times while the service ran past its deadline");
    if (log.tm[size_t(k0)].startNs.size() != firedInFirstLife)
      mc_violation("quiet-after-stop", "ts-restart:first-life-timer-fired-after-restart", "a timer scheduled before stop() fired after the service was reset and restarted");
    (void)firstStopStep;
  }
  svc->stop();
  log.stopped = true;
  checkTimers("ts-restart", 0, false);
  mc_quiesce(50 * MS);
  C08_UNWATCH(svc);
  delete svc;
  L = nullptr;
}
} // namespace

int main(int argc, char **argv)
{
  simk_cfg.syscallPoints = true;
  std::vector<McScenario> v;
  bool thorough = false;
  for (int i = 1; i + 1 < argc; ++i)
    if (std::string(argv[i]) == "--tier" && std::string(argv[i + 1]) == "thorough")
      thorough = true;
  for (const TsScn &s : TS)
  {
    McScenario m;
    m.name = s.name;
    m.body = [s]() { runTs(s); };
    m.quick.P = s.qP;
    m.quick.T = s.qT;
    m.quick.S = 1;
    m.quick.total = 2;
    m.thorough.P = s.tP;
    m.thorough.T = s.tT;
    m.thorough.S = 2;
    m.thorough.total = 3;
    m.horizon_s = 30;
    v.push_back(m);
  }
  for (const WhScn &s : WH)
  {
    McScenario m;
    m.name = s.name;
    m.body = [s]() { runWh(s); };
    m.quick.P = s.qP;
    m.quick.T = s.qT;
    m.quick.S = 1;
    m.quick.total = 2;
    m.thorough.P = s.tP;
    m.thorough.T = s.tT;
    m.thorough.S = 2;
    m.thorough.total = 3;
    m.horizon_s = 30;
    v.push_back(m);
  }
  {
    McScenario m;
    m.name = "wheelseq";
    int depth = thorough ? 5 : 4;
    m.body = [depth]() { wheelSeq(depth); };
    m.quick.S = 0;
    m.thorough.S = 0;
    m.weight = 4;
    m.horizon_s = 30;
    v.push_back(m);
  }
  {
    McScenario m;
    m.name = "pool";
    m.body = []() { runPool(); };
    m.quick.P = 1;
    m.quick.T = 1;
    m.quick.S = 1;
    m.quick.total = 2;
    m.thorough = m.quick;
    m.thorough.P = 2;
    m.thorough.total = 3;
    m.horizon_s = 30;
    v.push_back(m);
  }
  {
    McScenario m;
    m.name = "ts_restart_cycle";
    m.body = []() { runRestart(); };
    m.quick.P = 1;
    m.quick.T = 1;
    m.quick.S = 1;
    m.quick.total = 2;
    m.thorough = m.quick;
    m.thorough.P = 2;
    m.thorough.total = 3;
    m.horizon_s = 30;
    v.push_back(m);
  }
#ifdef MC_TSAN
  return mc_main(argc, argv, "C08_timers_T", v);
#else
  return mc_main(argc, argv, "C08_timers", v);
#endif
}

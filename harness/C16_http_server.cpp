// C16: each HTTP request gets exactly one well-formed response, in order.
//
// Real code under test: HttpServer::start() path - its own Transport::tcp (real TcpEngine, timer
// service), its worker ThreadPool(2..8), handleIncomingData -> processHttpRequest -> sendAsync - on
// the rt/simk kernel.  The client is a raw simulated socket that writes request streams and reads
// bytes.  Request sequences of length <= 3 on one connection (pipelined in one write, or sequential)
// over routes {fast, slow (virtual sleep), throwing, POST echo, unknown route, wrong method, HEAD},
// a malformed request and Connection: close at each position are enumerated as free choices;
// worker / I/O thread interleavings are explored within the deviation bounds.
//
// Oracle (an independent response framer splits the client byte stream):
//   one-response-each   exactly one response per complete request at quiescence (never silence, never two)
//   in-order            responses leave in the order the requests were received
//   no-interleaving     the stream is a clean concatenation of well-formed responses
//   content-length      Content-Length equals the body that follows (handlers use the response API)
//   head-bodyless       responses to HEAD carry no body
//   throw-500           a throwing handler yields 500
//   bad-request         an unparsable request yields an error status or a closed connection
//   close-after         after a Connection: close request the server closes after that response, nothing further
#include "mc.h"
#include "simk.h"
#include <iora/network/http_server.hpp>

#include <arpa/inet.h>
#include <netinet/in.h>
#include <sys/socket.h>
#include <unistd.h>

#include <sstream>
#include <thread>

using namespace iora::network;

namespace
{
sockaddr_in addr(const char *ip, uint16_t port)
{
  sockaddr_in a{};
  a.sin_family = AF_INET;
  a.sin_port = htons(port);
  inet_pton(AF_INET, ip, &a.sin_addr);
  return a;
}

struct Resp
{
  int status = 0;
  std::map<std::string, std::string> headers; // lower-cased names
  std::string body;
  bool hasCl = false;
  size_t cl = 0;
};

// Independent response framer: status line, header fields, body by Content-Length (HEAD: none).
// Returns false if the stream is not a clean concatenation of complete responses.
bool splitResponses(const std::string &s, const std::vector<bool> &isHead, std::vector<Resp> &out, std::string &why)
{
  size_t pos = 0;
  while (pos < s.size())
  {
    size_t he = s.find("\r\n\r\n", pos);
    if (he == std::string::npos)
    {
      why = "trailing bytes without a complete header block at offset " + std::to_string(pos);
      return false;
    }
    std::string head = s.substr(pos, he - pos);
    Resp r;
    std::istringstream is(head);
    std::string line;
    if (!std::getline(is, line))
    {
      why = "empty status line";
      return false;
    }
    if (!line.empty() && line.back() == '\r')
      line.pop_back();
    if (line.compare(0, 9, "HTTP/1.1 ") != 0 || line.size() < 12)
    {
      why = "malformed status line '" + line + "' at offset " + std::to_string(pos);
      return false;
    }
    r.status = atoi(line.c_str() + 9);
    if (r.status < 100 || r.status > 599)
    {
      why = "status out of range in '" + line + "'";
      return false;
    }
    while (std::getline(is, line))
    {
      if (!line.empty() && line.back() == '\r')
        line.pop_back();
      size_t c = line.find(':');
      if (c == std::string::npos)
      {
        why = "header line without colon '" + line + "'";
        return false;
      }
      std::string k = line.substr(0, c), v = line.substr(c + 1);
      for (auto &ch : k)
        ch = char(tolower(ch));
      while (!v.empty() && (v[0] == ' ' || v[0] == '\t'))
        v.erase(0, 1);
      r.headers[k] = v;
    }
    auto it = r.headers.find("content-length");
    size_t idx = out.size();
    bool head_ = idx < isHead.size() && isHead[idx];
    size_t bodyLen = 0;
    if (it != r.headers.end())
    {
      r.hasCl = true;
      r.cl = size_t(strtoull(it->second.c_str(), nullptr, 10));
      bodyLen = head_ ? 0 : r.cl;
    }
    if (r.status == 204 || r.status == 304 || (r.status >= 100 && r.status < 200))
      bodyLen = 0;
    if (he + 4 + bodyLen > s.size())
    {
      why = "response #" + std::to_string(idx) + " declares " + std::to_string(bodyLen) + " body bytes, only " + std::to_string(s.size() - he - 4) + " follow";
      return false;
    }
    r.body = s.substr(he + 4, bodyLen);
    out.push_back(r);
    pos = he + 4 + bodyLen;
  }
  return true;
}

// Parse ONE response at pos; head => Content-Length is not followed by a body.
bool parseOne(const std::string &s, size_t pos, bool head, Resp &r, size_t &next)
{
  std::vector<Resp> out;
  std::string why;
  size_t he = s.find("\r\n\r\n", pos);
  if (he == std::string::npos)
    return false;
  // reuse the framer on a window that ends after the header block; compute the body length here
  std::string headOnly = s.substr(pos, he + 4 - pos);
  std::vector<bool> hv{true}; // frame as bodyless first to obtain the headers
  if (!splitResponses(headOnly, hv, out, why) || out.size() != 1)
    return false;
  r = out[0];
  size_t bodyLen = (head || !r.hasCl || r.status == 204 || r.status == 304) ? 0 : r.cl;
  if (he + 4 + bodyLen > s.size())
    return false;
  r.body = s.substr(he + 4, bodyLen);
  next = he + 4 + bodyLen;
  return true;
}

struct Req
{
  std::string wire;
  std::string expectBody; // expected response body ("" = not checked)
  int expectStatus;       // 0 = any
  bool head = false;
  bool close = false;
  bool malformed = false;
  std::string name;
};

// request kinds:  0 GET /f<k> fast  1 GET /s<k> slow  2 GET /throw  3 POST /echo body  4 GET /nope (404)
//                 5 POST /f<k> (405)  6 HEAD /f<k>  7 malformed  8 GET /f<k> with Connection: close
Req makeReq(int kind, int k)
{
  Req r;
  std::string id = std::to_string(k);
  switch (kind)
  {
  case 0:
    r.wire = "GET /f" + id + " HTTP/1.1\r\nHost: x\r\n\r\n";
    r.expectBody = "f" + id;
    r.expectStatus = 200;
    r.name = "f" + id;
    break;
  case 1:
    r.wire = "GET /s" + id + " HTTP/1.1\r\nHost: x\r\n\r\n";
    r.expectBody = "s" + id;
    r.expectStatus = 200;
    r.name = "s" + id;
    break;
  case 2:
    r.wire = "GET /throw HTTP/1.1\r\nHost: x\r\n\r\n";
    r.expectStatus = 500;
    r.name = "throw";
    break;
  case 3:
    r.wire = "POST /echo HTTP/1.1\r\nHost: x\r\nContent-Length: 3\r\n\r\nab" + id;
    r.expectBody = "ab" + id;
    r.expectStatus = 200;
    r.name = "echo" + id;
    break;
  case 4:
    r.wire = "GET /nope" + id + " HTTP/1.1\r\nHost: x\r\n\r\n";
    r.expectStatus = 404;
    r.name = "404";
    break;
  case 5:
    r.wire = "POST /f" + id + " HTTP/1.1\r\nHost: x\r\nContent-Length: 0\r\n\r\n";
    r.expectStatus = 405;
    r.name = "405";
    break;
  case 6:
    r.wire = "HEAD /f" + id + " HTTP/1.1\r\nHost: x\r\n\r\n";
    r.expectStatus = 200;
    r.head = true;
    r.name = "head" + id;
    break;
  case 7:
    r.wire = "NOT A REQUEST LINE\r\n\r\n";
    r.malformed = true;
    r.expectStatus = 0;
    r.name = "bad";
    break;
  case 8:
    r.wire = "GET /f" + id + " HTTP/1.1\r\nHost: x\r\nConnection: close\r\n\r\n";
    r.expectBody = "f" + id;
    r.expectStatus = 200;
    r.close = true;
    r.name = "f" + id + "+close";
    break;
  case 9:
  case 10:
  case 11:
  case 12:
  {
    // connection options are case-insensitive tokens and field names are case-insensitive (RFC 9110 5.1, 7.6.1):
    // every spelling asks for the connection to be closed after the response
    static const char *spell[] = {"Connection: Close", "Connection: CLOSE", "connection: close", "CONNECTION: cLoSe"};
    r.wire = "GET /f" + id + " HTTP/1.1\r\nHost: x\r\n" + spell[kind - 9] + "\r\n\r\n";
    r.expectBody = "f" + id;
    r.expectStatus = 200;
    r.close = true;
    r.name = "f" + id + "+" + spell[kind - 9];
    break;
  }
  }
  return r;
}

bool respMatches(const Req &rq, const Resp &rs)
{
  if (rq.malformed)
    return rs.status >= 400;
  if (rq.expectStatus && rs.status != rq.expectStatus)
    return false;
  if (rq.head)
    return rs.body.empty();
  if (!rq.expectBody.empty() && rs.body != rq.expectBody)
    return false;
  return true;
}

// Joint framing + matching: assign every response in the stream to a distinct request it matches.
// found[0] = an identity assignment exists (response k answers request k); found[1] = some other assignment exists.
void searchAssign(const std::string &s, const std::vector<Req> &reqs, size_t pos, unsigned used, size_t k, bool identitySoFar, bool found[2])
{
  if (pos == s.size())
  {
    found[identitySoFar ? 0 : 1] = true;
    return;
  }
  for (size_t j = 0; j < reqs.size(); ++j)
  {
    if (used & (1u << j))
      continue;
    Resp r;
    size_t next = 0;
    if (!parseOne(s, pos, reqs[j].head, r, next) || !respMatches(reqs[j], r))
      continue;
    searchAssign(s, reqs, next, used | (1u << j), k + 1, identitySoFar && j == k, found);
  }
}

// spellings: the LAST request of the sequence is a Connection: close request in one of four other spellings (kinds 9-12)
void run(int nreq, bool pipelined, bool spellings = false)
{
  mc_label("main:http");
  simk_cfg.tcpRcvBuf = 8192;
  simk_cfg.shortIo = false;
  std::vector<Req> reqs;
  std::string sigSeq;
  for (int i = 0; i < nreq; ++i)
  {
    int kind = spellings && i == nreq - 1 ? 9 + mc_choose(4, MC_FREE) : mc_choose(9, MC_FREE);
    reqs.push_back(makeReq(kind, i + 1));
    sigSeq += (i ? "," : "") + reqs.back().name;
  }
  auto *srv = new HttpServer("127.0.0.1", 8080);
  for (int k = 1; k <= 3; ++k)
  {
    std::string id = std::to_string(k);
    srv->onGet("/f" + id, [id](const HttpServer::Request &, HttpServer::Response &res) { res.set_content("f" + id, "text/plain"); });
    srv->onGet("/s" + id,
               [id](const HttpServer::Request &, HttpServer::Response &res)
               {
                 std::this_thread::sleep_for(std::chrono::milliseconds(50));
                 res.set_content("s" + id, "text/plain");
               });
  }
  srv->onGet("/throw", [](const HttpServer::Request &, HttpServer::Response &) { throw std::runtime_error("boom"); });
  srv->onPost("/echo", [](const HttpServer::Request &rq, HttpServer::Response &res) { res.set_content(rq.body, "text/plain"); });
  srv->start();
  mc_quiesce();
  int c = ::socket(AF_INET, SOCK_STREAM | SOCK_NONBLOCK, 0);
  sockaddr_in a = addr("127.0.0.1", 8080);
  ::connect(c, (sockaddr *)&a, sizeof a);
  mc_quiesce();
  std::string got;
  bool eof = false;
  auto drain = [&]()
  {
    char b[4096];
    for (;;)
    {
      ssize_t r = ::recv(c, b, sizeof b, 0);
      if (r > 0)
        got.append(b, size_t(r));
      else
      {
        if (r == 0)
          eof = true;
        break;
      }
    }
  };
  auto settle = [&]()
  {
    for (int i = 0; i < 6; ++i)
    {
      mc_quiesce(100ull * 1000000ull);
      drain();
    }
  };
  size_t sentUpTo = 0; // number of requests the server can have seen complete
  if (pipelined)
  {
    std::string all;
    for (auto &r : reqs)
      all += r.wire;
    ::send(c, all.data(), all.size(), 0);
    sentUpTo = reqs.size();
    settle();
  }
  else
  {
    for (auto &r : reqs)
    {
      if (eof)
        break;
      ssize_t w = ::send(c, r.wire.data(), r.wire.size(), 0);
      if (w != ssize_t(r.wire.size()))
        break;
      ++sentUpTo;
      settle();
    }
  }
  mc_obs("seq=%s pipelined=%d got=%zu bytes eof=%d", sigSeq.c_str(), int(pipelined), got.size(), int(eof));

  // ---- oracle ----
  // the requests that must be answered: all up to (and including) the first close / malformed one
  size_t mustAnswer = 0;
  bool closeExpected = false;
  for (size_t i = 0; i < sentUpTo; ++i)
  {
    mustAnswer = i + 1;
    if (reqs[i].close || reqs[i].malformed)
    {
      closeExpected = reqs[i].close;
      break;
    }
  }
  // First question: is the stream a sequence of responses that answer the requests in a DIFFERENT order (or
  // answer a later request while an earlier one stays unanswered)?  That single shape - responses of one
  // connection leaving in completion order - gets one signature, whatever requests were involved.
  {
    bool found[2] = {false, false};
    std::vector<Req> answerable(reqs.begin(), reqs.begin() + long(sentUpTo));
    searchAssign(got, answerable, 0, 0, 0, true, found);
    if (!found[0] && found[1])
      mc_violation("in-order", std::string(pipelined ? "pipelined" : "sequential") + "-responses-not-in-request-order",
                   "the responses on the wire answer the requests in a different order than they were received (requests " + sigSeq + ", " + std::to_string(got.size()) + " bytes, eof=" + (eof ? "1" : "0") + ")");
  }
  std::vector<bool> isHead;
  for (auto &r : reqs)
    isHead.push_back(r.head);
  std::vector<Resp> resps;
  std::string why;
  std::string mode = pipelined ? "pipelined" : "sequential";
  if (!splitResponses(got, isHead, resps, why))
    mc_violation("no-interleaving", "stream-not-a-concatenation-of-responses:" + mode + ":" + sigSeq, "client stream does not split into well-formed responses: " + why + " (requests " + sigSeq + ")");
  // malformed request: error status or closed connection; nothing is demanded after it
  bool sawMalformed = false;
  for (size_t i = 0; i < mustAnswer; ++i)
  {
    const Req &rq = reqs[i];
    if (rq.malformed)
    {
      sawMalformed = true;
      bool errStatus = i < resps.size() && resps[i].status >= 400;
      if (!errStatus && !eof)
        mc_violation("bad-request", "unparsable-request-left-waiting:" + mode, "an unparsable request got neither an error status nor a closed connection (requests " + sigSeq + ")");
      break;
    }
    if (i >= resps.size())
      mc_violation("one-response-each", "request-unanswered:" + mode + ":" + sigSeq, "request #" + std::to_string(i + 1) + " (" + rq.name + ") received no response at quiescence; " + std::to_string(resps.size()) + " responses for requests " + sigSeq);
    const Resp &rs = resps[i];
    // identify which request this response belongs to (bodies are unique per request)
    if (!rq.expectBody.empty() && !rq.head && rs.body != rq.expectBody)
    {
      // does it belong to a LATER request? -> order violation
      for (size_t j = 0; j < reqs.size(); ++j)
        if (j != i && !reqs[j].expectBody.empty() && reqs[j].expectBody == rs.body)
          mc_violation("in-order", "responses-out-of-order:" + mode + ":" + sigSeq, "response #" + std::to_string(i + 1) + " carries the body of request #" + std::to_string(j + 1) + " (requests " + sigSeq + ")");
      mc_violation("one-response-each", "wrong-body:" + rq.name, "response to " + rq.name + " has body '" + rs.body + "'");
    }
    if (rq.expectStatus && rs.status != rq.expectStatus)
    {
      if (rq.expectStatus == 500)
        mc_violation("throw-500", "throwing-handler-status:" + std::to_string(rs.status), "a throwing handler produced status " + std::to_string(rs.status));
      // a later request's response in this slot?
      for (size_t j = i + 1; j < reqs.size(); ++j)
        if (reqs[j].expectStatus == rs.status && reqs[j].expectStatus != rq.expectStatus)
          mc_violation("in-order", "responses-out-of-order:" + mode + ":" + sigSeq, "response #" + std::to_string(i + 1) + " has status " + std::to_string(rs.status) + " which belongs to request #" + std::to_string(j + 1) + " (requests " + sigSeq + ")");
      mc_violation("one-response-each", "wrong-status:" + rq.name + ":" + std::to_string(rs.status), "response to " + rq.name + " has status " + std::to_string(rs.status) + ", expected " + std::to_string(rq.expectStatus));
    }
    if (rs.hasCl && !rq.head && rs.cl != rs.body.size())
      mc_violation("content-length", "content-length-differs-from-body", "Content-Length " + std::to_string(rs.cl) + " but body has " + std::to_string(rs.body.size()) + " bytes");
    if (!rq.expectBody.empty() && !rq.head && !rs.hasCl)
      mc_violation("content-length", "content-length-missing", "handler used set_content but the response has no Content-Length");
    if (rq.head && !rs.body.empty())
      mc_violation("head-bodyless", "head-response-with-body", "HEAD response carries a body");
  }
  // (whether a pipelined request that FOLLOWS a Connection: close request may still be answered before the
  //  connection is closed is not decided by the statement; only the close itself is demanded below)
  if (!sawMalformed && !closeExpected && resps.size() > mustAnswer)
    mc_violation("one-response-each", "more-responses-than-requests",
                 std::to_string(resps.size()) + " responses for " + std::to_string(mustAnswer) + " answerable requests (requests " + sigSeq + ")");
  if (closeExpected && !eof)
    mc_violation("close-after", "connection-not-closed-after-close-request:" + mode, "the server did not close the connection after answering a Connection: close request (requests " + sigSeq + ")");
  if (!closeExpected && !sawMalformed && eof)
    mc_violation("one-response-each", "connection-closed-unexpectedly", "the server closed a keep-alive connection (requests " + sigSeq + ")");
  ::close(c);
  srv->stop();
  delete srv;
  mc_quiesce();
}

// ---------------------------------------------------------------- requests that cannot be parsed
// "a request that cannot be parsed yields an error status or a closed connection - never a connection left waiting
// with neither".  One connection, optionally one good request first, then one request from this list; every byte of it
// is on the wire.  Oracle: at quiescence (600 ms of virtual time later) the client has a complete response for it, or
// the connection was closed.  (Whether a lenient server answers 200 to some of them is not judged.)
struct BadReq
{
  const char *name;
  const char *wire;
};
const BadReq BAD[] = {
  {"request-line", "NOT A REQUEST LINE\r\n\r\n"},
  {"chunk-data-without-crlf", "POST /echo HTTP/1.1\r\nHost: x\r\nTransfer-Encoding: chunked\r\n\r\n5\r\nhelloXY0\r\n\r\n"},
  {"chunk-size-garbage", "POST /echo HTTP/1.1\r\nHost: x\r\nTransfer-Encoding: chunked\r\n\r\nzz\r\nhello\r\n0\r\n\r\n"},
  {"chunk-size-17-digits", "POST /echo HTTP/1.1\r\nHost: x\r\nTransfer-Encoding: chunked\r\n\r\n10000000000000005\r\nhello\r\n0\r\n\r\n"},
  {"chunk-size-negative", "POST /echo HTTP/1.1\r\nHost: x\r\nTransfer-Encoding: chunked\r\n\r\n-5\r\nhello\r\n0\r\n\r\n"},
  {"content-length-garbage", "POST /echo HTTP/1.1\r\nHost: x\r\nContent-Length: 3x\r\n\r\nabc"},
  {"content-length-negative", "POST /echo HTTP/1.1\r\nHost: x\r\nContent-Length: -3\r\n\r\nabc"},
  {"content-length-twice-differs", "POST /echo HTTP/1.1\r\nHost: x\r\nContent-Length: 3\r\nContent-Length: 4\r\n\r\nabcd"},
  {"http-version-garbage", "GET /f1 HTTX/1.1\r\nHost: x\r\n\r\n"},
  {"header-without-colon", "GET /f1 HTTP/1.1\r\nHost: x\r\nBadHeaderLine\r\n\r\n"},
  {"empty-method", " /f1 HTTP/1.1\r\nHost: x\r\n\r\n"},
};
const int N_BAD = int(sizeof BAD / sizeof BAD[0]);

void badRequests()
{
  mc_label("main:http-bad");
  simk_cfg.tcpRcvBuf = 8192;
  simk_cfg.shortIo = false;
  int v = mc_choose(N_BAD, MC_FREE);
  int preceded = mc_choose(2, MC_FREE);
  auto *srv = new HttpServer("127.0.0.1", 8080);
  srv->onGet("/f1", [](const HttpServer::Request &, HttpServer::Response &res) { res.set_content("f1", "text/plain"); });
  srv->onPost("/echo", [](const HttpServer::Request &rq, HttpServer::Response &res) { res.set_content(rq.body, "text/plain"); });
  srv->start();
  mc_quiesce();
  int c = ::socket(AF_INET, SOCK_STREAM | SOCK_NONBLOCK, 0);
  sockaddr_in a = addr("127.0.0.1", 8080);
  ::connect(c, (sockaddr *)&a, sizeof a);
  mc_quiesce();
  std::string got;
  bool eof = false;
  auto settle = [&]()
  {
    for (int i = 0; i < 6; ++i)
    {
      mc_quiesce(100ull * 1000000ull);
      char b[4096];
      for (;;)
      {
        ssize_t r = ::recv(c, b, sizeof b, 0);
        if (r > 0)
          got.append(b, size_t(r));
        else
        {
          if (r == 0)
            eof = true;
          break;
        }
      }
    }
  };
  size_t expectResponses = 1;
  if (preceded)
  {
    std::string g = "GET /f1 HTTP/1.1\r\nHost: x\r\n\r\n";
    ::send(c, g.data(), g.size(), 0);
    settle();
    expectResponses = 2;
  }
  std::string w = BAD[v].wire;
  if (!eof)
    ::send(c, w.data(), w.size(), 0);
  settle();
  // count complete responses in the stream (status line + Content-Length framed body)
  size_t responses = 0, pos = 0;
  while (pos < got.size())
  {
    size_t he = got.find("\r\n\r\n", pos);
    if (he == std::string::npos || got.compare(pos, 5, "HTTP/") != 0)
      break;
    std::string head = got.substr(pos, he - pos);
    size_t cl = 0;
    size_t k = head.find("Content-Length:");
    if (k != std::string::npos)
      cl = size_t(atoi(head.c_str() + k + 15));
    if (got.size() < he + 4 + cl)
      break;
    ++responses;
    pos = he + 4 + cl;
  }
  mc_obs("bad=%s preceded=%d responses=%zu eof=%d bytes=%zu", BAD[v].name, preceded, responses, int(eof), got.size());
  if (responses < expectResponses && !eof)
    mc_violation("bad-request", std::string("unparsable-request-left-waiting:") + BAD[v].name,
                 std::string("request '") + BAD[v].name + "' got neither a response nor a closed connection within 600 ms (" + (preceded ? "after one good request" : "first request") + ")");
  ::close(c);
  mc_quiesce();
  srv->stop();
  delete srv;
}
} // namespace

int main(int argc, char **argv)
{
  iora::core::Logger::setLevel(iora::core::Logger::Level::Fatal);
  std::vector<McScenario> v;
  struct
  {
    const char *name;
    int n;
    bool pipe;
    int qTotal, tTotal;
    double weight;
  } S[] = {
    {"seq1", 1, false, 1, 2, 2}, {"pipe2", 2, true, 1, 1, 3}, {"seq2", 2, false, 0, 1, 3}, {"pipe3", 3, true, 0, 0, 2}, {"seq3", 3, false, 0, 0, 2},
  };
  for (auto &s : S)
  {
    McScenario m;
    m.name = s.name;
    int n = s.n;
    bool p = s.pipe;
    m.body = [n, p]() { run(n, p); };
    m.quick.P = 1;
    m.quick.S = 1;
    m.quick.T = 1;
    m.quick.total = s.qTotal;
    m.thorough.P = 2;
    m.thorough.S = 1;
    m.thorough.T = 1;
    m.thorough.total = s.tTotal;
    m.horizon_s = 120;
    m.weight = s.weight;
    v.push_back(m);
  }
  for (int n = 1; n <= 2; ++n)
  {
    McScenario m;
    m.name = n == 1 ? "close_spellings" : "close_spellings_after_request";
    m.body = [n]() { run(n, n == 2, true); };
    m.quick.P = 1;
    m.quick.S = 1;
    m.quick.T = 1;
    m.quick.total = n == 1 ? 1 : 0;
    m.thorough = m.quick;
    m.thorough.total = 1;
    m.horizon_s = 120;
    v.push_back(m);
  }
  {
    McScenario m;
    m.name = "bad_requests";
    m.body = []() { badRequests(); };
    m.quick.P = 1;
    m.quick.S = 1;
    m.quick.T = 0;
    m.quick.total = 0;
    m.thorough = m.quick;
    m.thorough.total = 1;
    m.horizon_s = 120;
    v.push_back(m);
  }
  return mc_main(argc, argv, "C16_http_server", v);
}

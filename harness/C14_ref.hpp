// C14: independent reference pieces (no iora code): entity decoder, tag-skeleton scanner, hashing.
#pragma once
#include <cstdint>
#include <cstring>
#include <string>
#include <string_view>
#include <vector>

namespace c14
{
using sv = std::string_view;

inline bool isWs(char c) { return c == ' ' || c == '\t' || c == '\r' || c == '\n'; }
inline bool allWs(sv s)
{
  for (char c : s)
    if (!isWs(c))
      return false;
  return true;
}
inline sv lstrip(sv s)
{
  size_t i = 0;
  while (i < s.size() && isWs(s[i]))
    ++i;
  return s.substr(i);
}
inline sv rstrip(sv s)
{
  size_t n = s.size();
  while (n > 0 && isWs(s[n - 1]))
    --n;
  return s.substr(0, n);
}

// ---- reference UTF-8 encoder / entity decoder (XML 1.0 §4.1, §4.6) ----
inline bool xmlChar(uint32_t c)
{
  return c == 0x9 || c == 0xA || c == 0xD || (c >= 0x20 && c <= 0xD7FF) || (c >= 0xE000 && c <= 0xFFFD) ||
         (c >= 0x10000 && c <= 0x10FFFF);
}
inline void utf8(uint32_t c, std::string &o)
{
  if (c < 0x80)
    o += char(c);
  else if (c < 0x800)
  {
    o += char(0xC0 | (c >> 6));
    o += char(0x80 | (c & 63));
  }
  else if (c < 0x10000)
  {
    o += char(0xE0 | (c >> 12));
    o += char(0x80 | ((c >> 6) & 63));
    o += char(0x80 | (c & 63));
  }
  else
  {
    o += char(0xF0 | (c >> 18));
    o += char(0x80 | ((c >> 12) & 63));
    o += char(0x80 | ((c >> 6) & 63));
    o += char(0x80 | (c & 63));
  }
}
// Decodes a well-formed text/attribute slice; false if it contains anything but the five predefined
// entities and well-formed numeric references to XML Chars.
inline bool refDecode(sv in, std::string &out)
{
  out.clear();
  for (size_t i = 0; i < in.size();)
  {
    if (in[i] != '&')
    {
      out += in[i++];
      continue;
    }
    size_t semi = in.find(';', i);
    if (semi == sv::npos)
      return false;
    sv e = in.substr(i + 1, semi - i - 1);
    if (e == "lt")
      out += '<';
    else if (e == "gt")
      out += '>';
    else if (e == "amp")
      out += '&';
    else if (e == "apos")
      out += '\'';
    else if (e == "quot")
      out += '"';
    else if (e.size() >= 2 && e[0] == '#')
    {
      uint64_t v = 0;
      bool hexa = e[1] == 'x';
      size_t k = hexa ? 2 : 1;
      if (k >= e.size())
        return false;
      for (; k < e.size(); ++k)
      {
        char c = e[k];
        int d;
        if (c >= '0' && c <= '9')
          d = c - '0';
        else if (hexa && c >= 'a' && c <= 'f')
          d = c - 'a' + 10;
        else if (hexa && c >= 'A' && c <= 'F')
          d = c - 'A' + 10;
        else
          return false;
        v = v * (hexa ? 16 : 10) + uint64_t(d);
        if (v > 0x10FFFF)
          return false;
      }
      if (!xmlChar(uint32_t(v)))
        return false;
      utf8(uint32_t(v), out);
    }
    else
      return false;
    i = semi + 1;
  }
  return true;
}
// First entity reference ("&...;") of a slice, for signatures.
inline std::string firstRef(sv in)
{
  size_t a = in.find('&');
  if (a == sv::npos)
    return "";
  size_t b = in.find(';', a);
  if (b == sv::npos)
    return std::string(in.substr(a, 12));
  return std::string(in.substr(a, b - a + 1));
}
// All references to *named* entities other than the five predefined ones ("&name;" literals).
inline std::vector<std::string> undefinedNamedRefs(sv in)
{
  std::vector<std::string> r;
  auto ns = [](char c) { return c == ':' || c == '_' || (c >= 'A' && c <= 'Z') || (c >= 'a' && c <= 'z'); };
  auto nc = [&](char c) { return ns(c) || c == '-' || c == '.' || (c >= '0' && c <= '9'); };
  for (size_t i = 0; i < in.size(); ++i)
  {
    if (in[i] != '&' || i + 1 >= in.size() || !ns(in[i + 1]))
      continue;
    size_t k = i + 1;
    while (k < in.size() && nc(in[k]))
      ++k;
    if (k < in.size() && in[k] == ';')
    {
      sv e = in.substr(i + 1, k - i - 1);
      if (!(e == "lt" || e == "gt" || e == "amp" || e == "apos" || e == "quot"))
        r.push_back(std::string(in.substr(i, k - i + 1)));
    }
  }
  return r;
}

// ---- independent tag-skeleton scanner -------------------------------------------------------
// Lexes raw bytes into markup constructs by their delimiters only (comment, CDATA, PI, "<!...>"
// with the header's documented naive bracket rule, end tag up to '>', start tag up to the first
// '>' outside quotes) and keeps a stack of start-tag names.  Deliberately more lenient than any
// XML grammar: it is a superset lexer used only on documents the parser *accepted*.
struct Scan
{
  enum Verdict
  {
    Balanced,
    Unbalanced,   // some start tag is not closed by a matching end tag in proper nesting (or stray end tag)
    Indeterminate // an unterminated comment/CDATA/PI/declaration after everything was closed: no demand
  } verdict = Balanced;
  std::string why;
  size_t maxDepth = 0, maxAttrs = 0, maxElemName = 0, maxAttrName = 0, maxTextStripped = 0, tokens = 0, elements = 0;
  bool attrsLexed = true;
};

inline Scan scan(sv s)
{
  Scan r;
  std::vector<std::string> st;
  size_t n = s.size(), i = 0;
  auto unterminated = [&](const char *what, bool tag)
  {
    if (tag || !st.empty())
    {
      r.verdict = Scan::Unbalanced;
      r.why = std::string("unterminated-") + what;
    }
    else
    {
      r.verdict = Scan::Indeterminate;
      r.why = std::string("unterminated-") + what;
    }
  };
  while (i < n)
  {
    if (s[i] != '<')
    {
      size_t j = s.find('<', i);
      if (j == sv::npos)
        j = n;
      sv run = s.substr(i, j - i);
      if (!allWs(run))
      {
        ++r.tokens;
        size_t l = lstrip(run).size();
        if (l > r.maxTextStripped)
          r.maxTextStripped = l;
      }
      i = j;
      continue;
    }
    if (i + 1 >= n)
    {
      unterminated("lt-at-eof", true);
      return r;
    }
    char c = s[i + 1];
    if (c == '?')
    {
      size_t k = s.find("?>", i + 2);
      if (k == sv::npos)
      {
        unterminated("pi", false);
        return r;
      }
      ++r.tokens;
      i = k + 2;
    }
    else if (c == '!')
    {
      if (s.compare(i + 2, 2, "--") == 0)
      {
        size_t k = s.find("-->", i + 4);
        if (k == sv::npos)
        {
          unterminated("comment", false);
          return r;
        }
        ++r.tokens;
        i = k + 3;
      }
      else if (s.compare(i + 2, 7, "[CDATA[") == 0)
      {
        size_t k = s.find("]]>", i + 9);
        if (k == sv::npos)
        {
          unterminated("cdata", false);
          return r;
        }
        ++r.tokens;
        i = k + 3;
      }
      else
      {
        int br = 0;
        size_t k = i + 2;
        for (; k < n; ++k)
        {
          if (s[k] == '[')
            ++br;
          else if (s[k] == ']')
          {
            if (br > 0)
              --br;
          }
          else if (s[k] == '>' && br == 0)
            break;
        }
        if (k >= n)
        {
          unterminated("declaration", false);
          return r;
        }
        ++r.tokens;
        i = k + 1;
      }
    }
    else if (c == '/')
    {
      size_t k = s.find('>', i + 2);
      if (k == sv::npos)
      {
        unterminated("end-tag", true);
        return r;
      }
      std::string name(rstrip(s.substr(i + 2, k - i - 2)));
      if (st.empty())
      {
        r.verdict = Scan::Unbalanced;
        r.why = "stray-end-tag";
        return r;
      }
      if (st.back() != name)
      {
        r.verdict = Scan::Unbalanced;
        r.why = "mismatched-end-tag";
        return r;
      }
      st.pop_back();
      ++r.tokens;
      i = k + 1;
    }
    else
    {
      size_t k = i + 1;
      char q = 0;
      for (; k < n; ++k)
      {
        char ch = s[k];
        if (q)
        {
          if (ch == q)
            q = 0;
        }
        else if (ch == '"' || ch == '\'')
          q = ch;
        else if (ch == '>')
          break;
      }
      if (k >= n)
      {
        unterminated("start-tag", true);
        return r;
      }
      sv body = s.substr(i + 1, k - i - 1);
      bool selfClose = !body.empty() && body.back() == '/';
      if (selfClose)
        body.remove_suffix(1);
      size_t e = 0;
      while (e < body.size() && !isWs(body[e]))
        ++e;
      std::string name(body.substr(0, e));
      if (name.size() > r.maxElemName)
        r.maxElemName = name.size();
      // attribute level (may fail: then attribute statistics of this document are unknown)
      size_t p = e, attrs = 0;
      while (true)
      {
        while (p < body.size() && isWs(body[p]))
          ++p;
        if (p >= body.size())
          break;
        size_t a0 = p;
        while (p < body.size() && !isWs(body[p]) && body[p] != '=')
          ++p;
        size_t alen = p - a0;
        while (p < body.size() && isWs(body[p]))
          ++p;
        if (p >= body.size() || body[p] != '=' || alen == 0)
        {
          r.attrsLexed = false;
          break;
        }
        ++p;
        while (p < body.size() && isWs(body[p]))
          ++p;
        if (p >= body.size() || (body[p] != '"' && body[p] != '\''))
        {
          r.attrsLexed = false;
          break;
        }
        size_t cq = body.find(body[p], p + 1);
        if (cq == sv::npos)
        {
          r.attrsLexed = false;
          break;
        }
        p = cq + 1;
        ++attrs;
        if (alen > r.maxAttrName)
          r.maxAttrName = alen;
      }
      if (attrs > r.maxAttrs)
        r.maxAttrs = attrs;
      size_t d = st.size() + 1;
      if (d > r.maxDepth)
        r.maxDepth = d;
      if (!selfClose)
        st.push_back(name);
      ++r.elements;
      ++r.tokens;
      i = k + 1;
    }
  }
  if (!st.empty())
  {
    r.verdict = Scan::Unbalanced;
    r.why = "unclosed-at-eof";
  }
  return r;
}

// ---- 128-bit content hash + flat set (dedupe / sharding) -------------------------------------
struct H128
{
  uint64_t a, b;
};
inline uint64_t mix64(uint64_t x)
{
  x ^= x >> 33;
  x *= 0xff51afd7ed558ccdULL;
  x ^= x >> 33;
  x *= 0xc4ceb9fe1a85ec53ULL;
  x ^= x >> 33;
  return x;
}
inline H128 hash128(sv s)
{
  uint64_t a = 0xcbf29ce484222325ULL, b = 0x9e3779b97f4a7c15ULL;
  for (unsigned char c : s)
  {
    a = (a ^ c) * 0x100000001b3ULL;
    b = (b + c + 1) * 0xd6e8feb86659fd93ULL;
    b ^= b >> 29;
  }
  return H128{mix64(a ^ s.size()), mix64(b + 0x51ed27 * s.size())};
}
class HashSet
{
public:
  explicit HashSet(size_t cap = 1 << 16) { _t.assign(cap, H128{0, 0}); }
  // true if newly inserted
  bool insert(H128 h)
  {
    if (h.a == 0 && h.b == 0)
      h.b = 1;
    if ((_n + 1) * 10 > _t.size() * 6)
      grow();
    return put(h);
  }
  size_t size() const { return _n; }

private:
  bool put(H128 h)
  {
    size_t m = _t.size() - 1, i = size_t(h.a) & m;
    while (true)
    {
      H128 &e = _t[i];
      if (e.a == 0 && e.b == 0)
      {
        e = h;
        ++_n;
        return true;
      }
      if (e.a == h.a && e.b == h.b)
        return false;
      i = (i + 1) & m;
    }
  }
  void grow()
  {
    std::vector<H128> old;
    old.swap(_t);
    _t.assign(old.size() * 2, H128{0, 0});
    _n = 0;
    for (auto &e : old)
      if (e.a || e.b)
        put(e);
  }
  std::vector<H128> _t;
  size_t _n = 0;
};

} // namespace c14
